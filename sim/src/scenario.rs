//! Scenario descriptions: a flop and, per player, the *recipe* by which the
//! range is constructed (history, ordered entries, capacity hint, hash seed).
//! Everything is explicit so a replay file rebuilds the very same values.

use crate::cards::*;
use crate::rng::Rng;
use espada::card::Card;
use espada::hand_range::{CardPair, HandRange};
use serde_json::{json, Value};

#[derive(Clone, Debug, PartialEq)]
pub enum How {
    /// `collect()` from a Vec iterator (exact size hint unless `hint` overrides it)
    Collect,
    /// `collect()` from an iterator with size_hint (0, None): incremental growth
    NoHint,
    /// `FromIterator<CardPair>` (all weights 1.0)
    Pairs,
    /// `str::parse` of `text`
    Parse,
}

#[derive(Clone, Debug, PartialEq)]
pub struct RangeRecipe {
    pub how: How,
    /// insertion order; duplicates allowed (a later entry overwrites)
    pub entries: Vec<(u8, u8, u32)>,
    /// forced lower bound of size_hint (capacity seam); None = natural
    pub hint: Option<usize>,
    /// hasher seed (hook); 0 = shipped FxBuildHasher
    pub hash_seed: u64,
    pub text: Option<String>,
    /// take `.clone()` of the built range this many times (clone keeps layout)
    pub clones: u8,
}

impl RangeRecipe {
    pub fn simple(entries: Vec<(u8, u8, u32)>) -> RangeRecipe {
        RangeRecipe {
            how: How::Collect,
            entries,
            hint: None,
            hash_seed: 0,
            text: None,
            clones: 0,
        }
    }

    pub fn build(&self) -> HandRange {
        espada::verif::set_hash_seed(self.hash_seed);
        let items: Vec<(CardPair, f32)> = self
            .entries
            .iter()
            .map(|(a, b, w)| (pair(*a, *b), f32::from_bits(*w)))
            .collect();
        let mut r: HandRange = match self.how {
            How::Collect => match self.hint {
                None => items.into_iter().collect(),
                Some(h) => HintedIter {
                    inner: items.into_iter(),
                    hint: h,
                }
                .collect(),
            },
            How::NoHint => NoHintIter {
                inner: items.into_iter(),
            }
            .collect(),
            How::Pairs => items.into_iter().map(|(p, _)| p).collect(),
            How::Parse => self
                .text
                .as_deref()
                .unwrap_or("")
                .parse::<HandRange>()
                .unwrap_or_else(|_| HandRange::empty()),
        };
        for _ in 0..self.clones {
            r = r.clone();
        }
        espada::verif::set_hash_seed(0);
        r
    }

    /// Distinct combos the recipe leads to (last write wins), for sizing only.
    pub fn distinct_len(&self) -> usize {
        let mut v: Vec<(u8, u8)> = self.entries.iter().map(|e| (e.0, e.1)).collect();
        v.sort();
        v.dedup();
        v.len()
    }

    pub fn to_json(&self) -> Value {
        json!({
            "how": match self.how { How::Collect => "collect", How::NoHint => "nohint", How::Pairs => "pairs", How::Parse => "parse" },
            "entries": self.entries.iter().map(|(a,b,w)| format!("{}@{:08x}", combo_str(*a,*b), w)).collect::<Vec<_>>(),
            "hint": self.hint,
            "hash_seed": self.hash_seed.to_string(),
            "text": self.text,
            "clones": self.clones,
        })
    }

    pub fn from_json(v: &Value) -> Result<RangeRecipe, String> {
        let how = match v["how"].as_str().unwrap_or("collect") {
            "collect" => How::Collect,
            "nohint" => How::NoHint,
            "pairs" => How::Pairs,
            "parse" => How::Parse,
            x => return Err(format!("bad how {x}")),
        };
        let mut entries = vec![];
        for e in v["entries"].as_array().ok_or("entries")? {
            let s = e.as_str().ok_or("entry")?;
            entries.push(parse_entry(s)?);
        }
        Ok(RangeRecipe {
            how,
            entries,
            hint: v["hint"].as_u64().map(|x| x as usize),
            hash_seed: v["hash_seed"]
                .as_str()
                .and_then(|s| s.parse().ok())
                .unwrap_or(0),
            text: v["text"].as_str().map(|s| s.to_string()),
            clones: v["clones"].as_u64().unwrap_or(0) as u8,
        })
    }
}

pub fn parse_entry(s: &str) -> Result<(u8, u8, u32), String> {
    let (c, w) = s.split_once('@').ok_or("entry without @")?;
    if c.len() != 4 {
        return Err(format!("bad combo {c}"));
    }
    let a = parse_card(&c[0..2]).ok_or("card")?;
    let b = parse_card(&c[2..4]).ok_or("card")?;
    let w = u32::from_str_radix(w, 16).map_err(|e| e.to_string())?;
    Ok((a, b, w))
}

/// Iterator whose size_hint lower bound is forced: HashMap::from_iter reserves
/// that many slots up front, so the table layout (hence iteration order) is ours.
pub struct HintedIter<I> {
    pub inner: I,
    pub hint: usize,
}
impl<I: Iterator> Iterator for HintedIter<I> {
    type Item = I::Item;
    fn next(&mut self) -> Option<I::Item> {
        self.inner.next()
    }
    fn size_hint(&self) -> (usize, Option<usize>) {
        (self.hint, None)
    }
}
pub struct NoHintIter<I> {
    pub inner: I,
}
impl<I: Iterator> Iterator for NoHintIter<I> {
    type Item = I::Item;
    fn next(&mut self) -> Option<I::Item> {
        self.inner.next()
    }
}

#[derive(Clone, Debug, PartialEq)]
pub struct Scenario {
    pub flop: [u8; 3],
    pub players: Vec<RangeRecipe>,
}

impl Scenario {
    pub fn board(&self) -> [Option<Card>; 5] {
        [
            Some(card(self.flop[0])),
            Some(card(self.flop[1])),
            Some(card(self.flop[2])),
            None,
            None,
        ]
    }
    pub fn build_ranges(&self) -> Vec<HandRange> {
        self.players.iter().map(|p| p.build()).collect()
    }
    pub fn to_json(&self) -> Value {
        json!({
            "flop": self.flop.iter().map(|c| card_str(*c)).collect::<Vec<_>>().join(""),
            "players": self.players.iter().map(|p| p.to_json()).collect::<Vec<_>>(),
        })
    }
    pub fn from_json(v: &Value) -> Result<Scenario, String> {
        let f = v["flop"].as_str().ok_or("flop")?;
        if f.len() != 6 {
            return Err("flop len".into());
        }
        let flop = [
            parse_card(&f[0..2]).ok_or("flop card")?,
            parse_card(&f[2..4]).ok_or("flop card")?,
            parse_card(&f[4..6]).ok_or("flop card")?,
        ];
        let mut players = vec![];
        for p in v["players"].as_array().ok_or("players")? {
            players.push(RangeRecipe::from_json(p)?);
        }
        Ok(Scenario { flop, players })
    }
    /// Upper bound on odometer states per position.
    pub fn product(&self) -> u64 {
        self.players
            .iter()
            .map(|p| p.distinct_len() as u64)
            .fold(1u64, |a, b| a.saturating_mul(b))
    }
    pub fn short(&self) -> String {
        format!(
            "flop={} players=[{}]",
            self.flop.iter().map(|c| card_str(*c)).collect::<String>(),
            self.players
                .iter()
                .map(|p| {
                    if p.entries.is_empty() {
                        "<empty>".to_string()
                    } else if p.entries.len() <= 4 {
                        p.entries
                            .iter()
                            .map(|(a, b, w)| {
                                format!("{}:{}", combo_str(*a, *b), f32::from_bits(*w))
                            })
                            .collect::<Vec<_>>()
                            .join(",")
                    } else {
                        format!("{} combos", p.entries.len())
                    }
                })
                .collect::<Vec<_>>()
                .join(" | ")
        )
    }
}

// ---------------------------------------------------------------- generators

pub const WEIGHT_CHOICES: [f32; 6] = [1.0, 0.5, 0.25, 0.0, 1.0 / 3.0, 0.75];

pub fn gen_weight(rng: &mut Rng) -> u32 {
    match rng.below(8) {
        0..=3 => 1.0f32.to_bits(),
        4..=6 => WEIGHT_CHOICES[rng.usize_below(WEIGHT_CHOICES.len())].to_bits(),
        _ => {
            // random f32 in [0,1] on a 1/1024 grid (exact, prints short)
            ((rng.below(1025) as f32) / 1024.0).to_bits()
        }
    }
}

/// Random flop, biased to the classes the properties care about.
pub fn gen_flop(rng: &mut Rng) -> [u8; 3] {
    loop {
        let f: [u8; 3] = match rng.below(6) {
            0 => {
                // contains As and/or Ah (deck indexes 0/1 disappear)
                [
                    rng.below(2) as u8,
                    rng.range(2, 51) as u8,
                    rng.range(2, 51) as u8,
                ]
            }
            1 => {
                // paired / trips
                let r = rng.below(13) as u8;
                [
                    r * 4 + rng.below(4) as u8,
                    r * 4 + rng.below(4) as u8,
                    rng.below(52) as u8,
                ]
            }
            2 => {
                // monotone
                let s = rng.below(4) as u8;
                [
                    rng.below(13) as u8 * 4 + s,
                    rng.below(13) as u8 * 4 + s,
                    rng.below(13) as u8 * 4 + s,
                ]
            }
            3 => {
                // low cards (end of the deck disappears)
                [
                    rng.range(40, 51) as u8,
                    rng.range(40, 51) as u8,
                    rng.range(30, 51) as u8,
                ]
            }
            _ => [
                rng.below(52) as u8,
                rng.below(52) as u8,
                rng.below(52) as u8,
            ],
        };
        if f[0] != f[1] && f[0] != f[2] && f[1] != f[2] {
            return f;
        }
    }
}

pub fn random_combo(rng: &mut Rng) -> (u8, u8) {
    loop {
        let a = rng.below(52) as u8;
        let b = rng.below(52) as u8;
        if a != b {
            return (a.min(b), a.max(b));
        }
    }
}

/// `k` distinct random combos, optionally biased to low deck indexes (high cards).
pub fn gen_combos(rng: &mut Rng, k: usize, high_bias: bool) -> Vec<(u8, u8)> {
    let mut v: Vec<(u8, u8)> = vec![];
    let mut guard = 0;
    while v.len() < k && guard < 100000 {
        guard += 1;
        let c = if high_bias {
            let a = rng.below(12) as u8;
            let b = rng.below(52) as u8;
            if a == b {
                continue;
            }
            (a.min(b), a.max(b))
        } else {
            random_combo(rng)
        };
        if !v.contains(&c) {
            v.push(c);
        }
    }
    v
}

#[derive(Clone, Copy, Debug)]
pub struct ScenParams {
    pub max_players: usize,
    pub max_product: u64,
    pub allow_zero_players: bool,
    pub hash_seeds: bool,
}

/// Small-range scenario for the evaluator sims (C04/C15/C16): product of range
/// sizes stays under `max_product` so one unscoped run is affordable.
pub fn gen_scenario(rng: &mut Rng, p: &ScenParams) -> Scenario {
    let flop = gen_flop(rng);
    let nplayers = if p.allow_zero_players && rng.chance(1, 8) {
        0
    } else {
        1 + rng.usize_below(p.max_players)
    };
    let mut players: Vec<RangeRecipe> = vec![];
    let mut product: u64 = 1;
    for pi in 0..nplayers {
        let room = (p.max_product / product).max(1);
        let mode = rng.below(10);
        let mut combos: Vec<(u8, u8)> = match mode {
            0 | 1 => {
                let hb = rng.chance(1, 2);
                gen_combos(rng, 1, hb)
            }
            2 | 3 | 4 => {
                let k = rng.range(2, 6.min(room.max(2))) as usize;
                let hb = rng.chance(1, 3);
                gen_combos(rng, k, hb)
            }
            5 => {
                // a whole rank pair (pocket: 6 combos, suited: 4)
                let r = rng.below(13) as u8;
                if rng.chance(1, 2) {
                    let mut v = vec![];
                    for a in 0..4u8 {
                        for b in (a + 1)..4u8 {
                            v.push((r * 4 + a, r * 4 + b));
                        }
                    }
                    v
                } else {
                    let k = loop {
                        let k = rng.below(13) as u8;
                        if k != r {
                            break k;
                        }
                    };
                    (0..4u8)
                        .map(|s| {
                            let a = r * 4 + s;
                            let b = k * 4 + s;
                            (a.min(b), a.max(b))
                        })
                        .collect()
                }
            }
            6 => {
                // overlap another player's range (mutual blocking)
                if pi > 0 && !players[pi - 1].entries.is_empty() {
                    let prev = &players[pi - 1].entries;
                    let mut v: Vec<(u8, u8)> = prev.iter().map(|e| (e.0, e.1)).collect();
                    v.truncate(rng.range(1, v.len() as u64) as usize);
                    if rng.chance(1, 2) {
                        let extra = gen_combos(rng, 1, false);
                        if !v.contains(&extra[0]) {
                            v.push(extra[0]);
                        }
                    }
                    v
                } else {
                    gen_combos(rng, 2, true)
                }
            }
            7 => {
                // contains flop cards (every deal of that combo is rejected)
                let fc = flop[rng.usize_below(3)];
                let mut v = vec![];
                let other = loop {
                    let o = rng.below(52) as u8;
                    if o != fc {
                        break o;
                    }
                };
                v.push((fc.min(other), fc.max(other)));
                let extra_k = rng.range(0, 3) as usize;
                for c in gen_combos(rng, extra_k, false) {
                    if !v.contains(&c) {
                        v.push(c);
                    }
                }
                v
            }
            8 => {
                // narrow on the very first deck cards
                vec![(0, 1)]
            }
            _ => {
                let k = rng.range(1, 12.min(room.max(1))) as usize;
                gen_combos(rng, k, false)
            }
        };
        if combos.len() as u64 > room {
            combos.truncate(room.max(1) as usize);
        }
        product = product.saturating_mul(combos.len().max(1) as u64);
        let uniform_w = if rng.chance(1, 2) {
            Some(gen_weight(rng))
        } else {
            None
        };
        let entries: Vec<(u8, u8, u32)> = combos
            .iter()
            .map(|(a, b)| (*a, *b, uniform_w.unwrap_or_else(|| gen_weight(rng))))
            .collect();
        let mut rr = RangeRecipe::simple(entries);
        if p.hash_seeds && rng.chance(1, 2) {
            rr.hash_seed = rng.next_u64() | 1;
        }
        if rng.chance(1, 6) {
            rr.hint = Some(*rng.pick(&[0usize, 3, 7, 14, 28, 56, 112, 448]));
        }
        if rng.chance(1, 8) {
            rr.how = How::NoHint;
        }
        players.push(rr);
    }
    Scenario { flop, players }
}
