//! Greedy minimisation of a world run while the same violation keeps firing.
//! The budget is a number of candidate executions (not wall time), so the
//! minimised file is itself a deterministic function of the failing run.

use crate::scenario::How;
use crate::world::{Op, Run, Step, INLINE};

#[derive(Clone, Copy, Debug)]
pub struct ShrinkOpts {
    pub drop_tasks: bool,
    pub drop_players: bool,
    pub narrow_scopes: bool,
    pub max_candidates: usize,
}

pub fn shrink_run(mut run: Run, fails: &dyn Fn(&Run) -> bool, opts: ShrinkOpts) -> (Run, usize) {
    let mut tried = 0usize;
    let try_candidate = |cand: &Run, tried: &mut usize| -> bool {
        if *tried >= opts.max_candidates {
            return false;
        }
        *tried += 1;
        fails(cand)
    };
    let mut progress = true;
    while progress && tried < opts.max_candidates {
        progress = false;

        // 1. schedule -> run-to-completion in task order, no faults, inline
        {
            let mut c = run.clone();
            c.steps = (0..c.specs.len())
                .map(|i| Step {
                    task: i as u16,
                    exec: INLINE,
                    op: Op::Drain,
                })
                .collect();
            c.execs = 0;
            if c != run && try_candidate(&c, &mut tried) {
                run = c;
                progress = true;
            }
        }
        // 2. remove fault events one by one
        let mut i = 0;
        while i < run.steps.len() {
            if matches!(run.steps[i].op, Op::CrashResume | Op::Restart) {
                let mut c = run.clone();
                c.steps.remove(i);
                if try_candidate(&c, &mut tried) {
                    run = c;
                    progress = true;
                    continue;
                }
            }
            i += 1;
        }
        // 3. drop tasks
        if opts.drop_tasks {
            let mut t = 0;
            while t < run.specs.len() && run.specs.len() > 1 {
                let mut c = run.clone();
                c.specs.remove(t);
                c.steps = c
                    .steps
                    .iter()
                    .filter(|s| s.task as usize != t)
                    .map(|s| Step {
                        task: if (s.task as usize) > t { s.task - 1 } else { s.task },
                        ..*s
                    })
                    .collect();
                if try_candidate(&c, &mut tried) {
                    run = c;
                    progress = true;
                    continue;
                }
                t += 1;
            }
            // drop scenarios no task refers to — also a candidate to be verified: for some
            // properties scenario 0 is the reference the others are compared with
            let mut s = 0;
            while s < run.scens.len() && run.scens.len() > 1 {
                if run.specs.iter().all(|sp| sp.scen != s) {
                    let mut c = run.clone();
                    c.scens.remove(s);
                    for sp in c.specs.iter_mut() {
                        if sp.scen > s {
                            sp.scen -= 1;
                        }
                    }
                    if try_candidate(&c, &mut tried) {
                        run = c;
                        progress = true;
                        continue;
                    }
                }
                s += 1;
            }
        }
        // 4. drop players
        if opts.drop_players {
            for si in 0..run.scens.len() {
                let mut p = 0;
                while p < run.scens[si].players.len() {
                    let mut c = run.clone();
                    c.scens[si].players.remove(p);
                    if try_candidate(&c, &mut tried) {
                        run = c;
                        progress = true;
                        continue;
                    }
                    p += 1;
                }
            }
        }
        // 5. halve then peel combos
        for si in 0..run.scens.len() {
            for p in 0..run.scens[si].players.len() {
                loop {
                    let n = run.scens[si].players[p].entries.len();
                    if n <= 1 {
                        break;
                    }
                    let mut done = false;
                    for (lo, hi) in [(0, n / 2), (n / 2, n)] {
                        let mut c = run.clone();
                        c.scens[si].players[p].entries = run.scens[si].players[p].entries[lo..hi].to_vec();
                        if !c.scens[si].players[p].entries.is_empty() && try_candidate(&c, &mut tried) {
                            run = c;
                            progress = true;
                            done = true;
                            break;
                        }
                    }
                    if !done {
                        break;
                    }
                }
                let mut e = 0;
                while e < run.scens[si].players[p].entries.len()
                    && run.scens[si].players[p].entries.len() > 1
                    && run.scens[si].players[p].entries.len() <= 24
                {
                    let mut c = run.clone();
                    c.scens[si].players[p].entries.remove(e);
                    if try_candidate(&c, &mut tried) {
                        run = c;
                        progress = true;
                        continue;
                    }
                    e += 1;
                }
            }
        }
        // 6. simplify construction recipes and task decorations
        for si in 0..run.scens.len() {
            for p in 0..run.scens[si].players.len() {
                let r = &run.scens[si].players[p];
                if r.hash_seed != 0 || r.hint.is_some() || r.how != How::Collect || r.clones != 0 {
                    let mut c = run.clone();
                    let rr = &mut c.scens[si].players[p];
                    rr.hash_seed = 0;
                    rr.hint = None;
                    rr.clones = 0;
                    if rr.how != How::Parse {
                        rr.how = How::Collect;
                    }
                    if try_candidate(&c, &mut tried) {
                        run = c;
                        progress = true;
                    }
                }
            }
        }
        for t in 0..run.specs.len() {
            if !run.specs[t].pre.is_empty() {
                let mut c = run.clone();
                c.specs[t].pre.clear();
                if try_candidate(&c, &mut tried) {
                    run = c;
                    progress = true;
                }
            }
            if run.specs[t].extra_polls > 0 {
                let mut c = run.clone();
                c.specs[t].extra_polls = 0;
                if try_candidate(&c, &mut tried) {
                    run = c;
                    progress = true;
                }
            }
        }
        // 6b. narrow scopes in position-index space
        if opts.narrow_scopes {
            use crate::cards::{is_valid_pos, pos_from_index, pos_index};
            for t in 0..run.specs.len() {
                loop {
                    let Some((f, to)) = run.specs[t].scope else { break };
                    if !is_valid_pos(f) || !is_valid_pos(to) || f >= to {
                        break;
                    }
                    let (fi, ti) = (pos_index(f), pos_index(to));
                    if ti - fi <= 1 {
                        break;
                    }
                    let mid = (fi + ti) / 2;
                    let mut done = false;
                    for (nf, nt) in [(mid, ti), (fi, mid), (fi + 1, ti), (fi, ti - 1)] {
                        if nf >= nt || (nf, nt) == (fi, ti) {
                            continue;
                        }
                        let mut c = run.clone();
                        c.specs[t].scope = Some((pos_from_index(nf), pos_from_index(nt)));
                        if try_candidate(&c, &mut tried) {
                            run = c;
                            progress = true;
                            done = true;
                            break;
                        }
                    }
                    if !done {
                        break;
                    }
                }
            }
        }
        // 7. truncate trailing steps (binary search on the prefix length)
        {
            let mut lo = 0usize;
            let mut hi = run.steps.len();
            while lo < hi && tried < opts.max_candidates {
                let mid = (lo + hi) / 2;
                let mut c = run.clone();
                c.steps.truncate(mid);
                if try_candidate(&c, &mut tried) {
                    hi = mid;
                } else {
                    lo = mid + 1;
                }
            }
            if hi < run.steps.len() {
                run.steps.truncate(hi);
                progress = true;
            }
        }
        // 8. inline execution
        if run.execs != 0 {
            let mut c = run.clone();
            c.execs = 0;
            for s in c.steps.iter_mut() {
                s.exec = INLINE;
            }
            if try_candidate(&c, &mut tried) {
                run = c;
                progress = true;
            }
        }
    }
    (run, tried)
}
