//! C15 — evaluator instances are independent under any interleaving or thread schedule.
//!
//! Simulated system: E live evaluators (own flop/ranges/scope; some sharing one
//! Arc'd ranges value, some identical twins) stepped call by call by the seeded
//! scheduler on K real executor threads (exactly one runnable at a time), with
//! migration of live iterators between threads and crash_restart. Oracles:
//! equality with the same evaluator drained alone in-process (before and after)
//! and in a fresh process.

use crate::cards::*;
use crate::evalrun::*;
use crate::rng::{run_seed, Fold, Rng};
use crate::scenario::*;
use crate::shrink::{shrink_run, ShrinkOpts};
use crate::util::*;
use crate::world::*;
use serde_json::{json, Value};
use std::collections::BTreeMap;
use std::io::Write;
use std::process::{Command, Stdio};
use std::sync::Arc;

// ------------------------------------------------------------- alone baselines

fn scopes_of(spec: &TaskSpec) -> Vec<(Pos, Pos)> {
    let mut v = spec.pre.clone();
    if let Some(s) = spec.scope {
        v.push(s);
    }
    v
}

fn cap_for(scen: &Scenario) -> u64 {
    64 + 8 * scen.product().max(1) * (NPOS as u64 + 2)
}

/// The same evaluator drained alone, inline, nothing else being stepped.
fn alone_inproc(built: &BuiltScen, spec: &TaskSpec) -> Vec<Out> {
    let scopes = scopes_of(spec);
    let mut st = match Stepper::new(&built.scen.flop, &built.ranges, &scopes) {
        Ok(s) => s,
        Err(m) => return vec![Out::Panic(format!("construct: {m}"))],
    };
    let cap = cap_for(&built.scen);
    let mut v = vec![];
    let mut calls = 0;
    let mut polls = 0u8;
    let mut ended = false;
    while calls < cap {
        calls += 1;
        let o = st.step();
        let is_end = matches!(o, Out::End);
        let is_panic = matches!(o, Out::Panic(_));
        v.push(o);
        if is_panic {
            break;
        }
        if ended {
            polls += 1;
        }
        if is_end {
            ended = true;
        }
        if ended && polls >= spec.extra_polls {
            break;
        }
    }
    v
}

/// `espada-sim c15-alone`: one job on stdin, the outcome sequence on stdout.
pub fn alone_child_main() -> i32 {
    let mut line = String::new();
    if std::io::stdin().read_line(&mut line).is_err() {
        return 2;
    }
    let v: Value = match serde_json::from_str(&line) {
        Ok(v) => v,
        Err(_) => return 2,
    };
    let scen = match Scenario::from_json(&v["scenario"]) {
        Ok(s) => s,
        Err(_) => return 2,
    };
    let spec = match TaskSpec::from_json(&v["task"]) {
        Ok(s) => s,
        Err(_) => return 2,
    };
    let built = BuiltScen { scen: scen.clone(), ranges: Arc::new(scen.build_ranges()) };
    let outs = alone_inproc(&built, &spec);
    let mut o = std::io::stdout().lock();
    for x in outs {
        let _ = match x {
            Out::Yield { t, r, h } => writeln!(o, "Y {t} {r} {h}"),
            Out::End => writeln!(o, "E"),
            Out::Panic(m) => writeln!(o, "P {}", m.replace('\n', " ")),
        };
    }
    let _ = writeln!(o, "EOF");
    0
}

fn alone_fresh(scen: &Scenario, spec: &TaskSpec) -> Result<Vec<Out>, String> {
    // the same build profile as the run it is compared with
    let bin = std::env::current_exe().map(|p| p.display().to_string()).unwrap_or_else(|_| std::env::var("SIM_REL").unwrap_or_default());
    let mut child = Command::new(&bin)
        .arg("c15-alone")
        .stdin(Stdio::piped())
        .stdout(Stdio::piped())
        .stderr(Stdio::null())
        .spawn()
        .map_err(|e| format!("spawn {bin}: {e}"))?;
    {
        let mut sin = child.stdin.take().unwrap();
        let mut sp = spec.clone();
        sp.scen = 0;
        let _ = writeln!(sin, "{}", json!({"scenario": scen.to_json(), "task": sp.to_json()}));
    }
    let out = child.wait_with_output().map_err(|e| e.to_string())?;
    let text = String::from_utf8_lossy(&out.stdout);
    let mut v = vec![];
    let mut complete = false;
    for l in text.lines() {
        let mut p = l.splitn(2, ' ');
        match p.next() {
            Some("Y") => {
                let q: Vec<&str> = p.next().unwrap_or("").split(' ').collect();
                if q.len() == 3 {
                    v.push(Out::Yield {
                        t: q[0].parse().unwrap_or(255),
                        r: q[1].parse().unwrap_or(255),
                        h: q[2].parse().unwrap_or(0),
                    });
                }
            }
            Some("E") => v.push(Out::End),
            Some("P") => v.push(Out::Panic(p.next().unwrap_or("").to_string())),
            Some("EOF") => complete = true,
            _ => {}
        }
    }
    if !complete {
        // the fresh process died (e.g. stack overflow): that is an outcome too
        v.push(Out::Panic(format!("fresh process ended abnormally ({})", out.status)));
    }
    Ok(v)
}

fn canon(outs: &[Out]) -> (BTreeMap<(u8, u8), Vec<u64>>, Vec<String>) {
    let mut m: BTreeMap<(u8, u8), Vec<u64>> = BTreeMap::new();
    let mut tail = vec![];
    for o in outs {
        match o {
            Out::Yield { t, r, h } => m.entry((*t, *r)).or_default().push(*h),
            Out::End => tail.push("None".to_string()),
            Out::Panic(p) => tail.push(format!("panic:{}", panic_class(p))),
        }
    }
    for v in m.values_mut() {
        v.sort();
    }
    (m, tail)
}

fn first_diff(a: &[Out], b: &[Out]) -> String {
    let mut i = 0;
    while i < a.len() && i < b.len() && same_out(&a[i], &b[i]) {
        i += 1;
    }
    format!(
        "first difference at call #{i}: interleaved {} vs alone {} ({} vs {} outcomes)",
        a.get(i).map(|o| o.short()).unwrap_or("-".into()),
        b.get(i).map(|o| o.short()).unwrap_or("-".into()),
        a.len(),
        b.len()
    )
}

fn same_out(a: &Out, b: &Out) -> bool {
    match (a, b) {
        (Out::Panic(x), Out::Panic(y)) => panic_class(x) == panic_class(y),
        _ => a == b,
    }
}

fn same_seq(a: &[Out], b: &[Out]) -> bool {
    a.len() == b.len() && a.iter().zip(b.iter()).all(|(x, y)| same_out(x, y))
}

pub struct C15Result {
    pub key: Option<(String, String)>,
    pub next_calls: u64,
    pub faults: BTreeMap<String, u64>,
    pub probes: BTreeMap<String, u64>,
    pub trace_hash: u64,
    pub states: usize,
    pub log: u64,
    pub max_live: usize,
}

/// Execute an explicit run and apply the C15 oracles. `fresh`: also compare
/// with fresh-process baselines.
pub fn check_run(run: &Run, fresh: bool) -> C15Result {
    check_run_opts(run, fresh, false)
}

pub fn check_run_opts(run: &Run, fresh: bool, retain: bool) -> C15Result {
    let built: Vec<BuiltScen> = run
        .scens
        .iter()
        .map(|s| BuiltScen { scen: s.clone(), ranges: Arc::new(s.build_ranges()) })
        .collect();
    let mut res = C15Result {
        key: None,
        next_calls: 0,
        faults: BTreeMap::new(),
        probes: BTreeMap::new(),
        trace_hash: 0,
        states: 0,
        log: 0,
        max_live: 0,
    };
    // in a quarter of the runs every shared range is formatted and iterated before any
    // evaluator is built from it (a range is an input value: using it must not change it)
    if run.steps.len() % 4 == 0 {
        for b in &built {
            for r in b.ranges.iter() {
                let _ = crate::evalrun::guarded(|| (r.to_string(), r.card_pairs().len(), r.rank_pairs().len()));
            }
        }
        *res.probes.entry("runs_with_ranges_formatted_before_use".into()).or_insert(0) += 1;
    }
    // baseline BEFORE anything else exists
    let before: Vec<Vec<Out>> = run.specs.iter().map(|sp| alone_inproc(&built[sp.scen], sp)).collect();
    let mut w = World::with_built(built.clone(), &run.specs, run.execs);
    w.drain_cap = run.scens.iter().map(cap_for).max().unwrap_or(10_000);
    w.retain = retain;
    // interleaved phase; track how many iterators are alive at once
    for s in &run.steps {
        w.apply(*s);
        let live = w.tasks.iter().filter(|t| t.stepper.is_some() && !t.ended && !t.dead).count();
        if live > res.max_live {
            res.max_live = live;
        }
    }
    w.finish_all();
    res.next_calls = w.next_calls;
    res.faults = w.faults.clone();
    res.trace_hash = w.trace_hash();
    res.states = w.state_hashes.len();
    res.log = w.log.get();
    let retained_n = w.retained.len();
    let changed = if retain { w.recheck_retained() } else { None };
    if retain {
        *res.probes.entry("showdowns_retained_and_digested_again_at_the_end".into()).or_insert(0) += retained_n as u64;
        if retained_n >= 2048 {
            *res.probes.entry("runs_retaining_2048plus_showdowns".into()).or_insert(0) += 1;
        }
    }
    let effs: Vec<Vec<Out>> = w.tasks.iter().map(|t| t.effective()).collect();
    let threads_per_task: Vec<usize> = w.tasks.iter().map(|t| t.incs.iter().map(|i| i.threads.len()).max().unwrap_or(0)).collect();
    let anomalies: Vec<Option<String>> = w.tasks.iter().map(|t| t.anomaly.clone()).collect();
    drop(w);
    if let Some((ti, i, then, now)) = changed {
        res.key = Some((
            "retained_showdown_changed".into(),
            format!("evaluator {ti}: a showdown kept alive by the caller (retained #{i} of {retained_n}) digests to {now:x} at the end of the run, {then:x} when it was yielded"),
        ));
        return res;
    }
    // baseline AFTER every evaluator of the run has lived and died
    let after: Vec<Vec<Out>> = run.specs.iter().map(|sp| alone_inproc(&built[sp.scen], sp)).collect();
    for (ti, sp) in run.specs.iter().enumerate() {
        if threads_per_task[ti] >= 2 {
            *res.probes.entry("iterators_stepped_on_2plus_threads".into()).or_insert(0) += 1;
        }
        if let Some(a) = &anomalies[ti] {
            res.key = Some(("no_termination".into(), format!("evaluator {ti}: {a}")));
            return res;
        }
        let what = format!(
            "evaluator {ti} ({} scope {}..{})",
            run.scens[sp.scen].short(),
            pos_str(sp.from()),
            pos_str(sp.to())
        );
        if !same_seq(&before[ti], &after[ti]) {
            res.key = Some((
                "alone_before_vs_after".into(),
                format!("{what}: drained alone before the run and alone after it differ: {}", first_diff(&after[ti], &before[ti])),
            ));
            return res;
        }
        if !same_seq(&effs[ti], &before[ti]) {
            res.key = Some((
                "interleaved_vs_alone".into(),
                format!("{what}: {}", first_diff(&effs[ti], &before[ti])),
            ));
            return res;
        }
    }
    // twins (same scenario value, same spec) agree with each other by transitivity;
    // count them as a reach probe
    for i in 0..run.specs.len() {
        for j in (i + 1)..run.specs.len() {
            if run.specs[i] == run.specs[j] {
                *res.probes.entry("identical_twins_alive_together".into()).or_insert(0) += 1;
            }
        }
    }
    if fresh {
        for (ti, sp) in run.specs.iter().enumerate() {
            match alone_fresh(&run.scens[sp.scen], sp) {
                Ok(f) => {
                    *res.probes.entry("fresh_process_baselines".into()).or_insert(0) += 1;
                    if canon(&f) != canon(&effs[ti]) {
                        let (fm, ft) = canon(&f);
                        let (em, et) = canon(&effs[ti]);
                        let mut d = format!("tails {:?} vs {:?}", et, ft);
                        for (p, hs) in &em {
                            if fm.get(p) != Some(hs) {
                                d = format!("position {}: {} showdowns in the run vs {} in a fresh process", pos_str(*p), hs.len(), fm.get(p).map(|x| x.len()).unwrap_or(0));
                                break;
                            }
                        }
                        for (p, hs) in &fm {
                            if !em.contains_key(p) {
                                d = format!("position {}: missing in the run, {} showdowns in a fresh process", pos_str(*p), hs.len());
                                break;
                            }
                        }
                        res.key = Some((
                            "run_vs_fresh_process".into(),
                            format!(
                                "evaluator {ti} ({} scope {}..{}): {d}",
                                run.scens[sp.scen].short(),
                                pos_str(sp.from()),
                                pos_str(sp.to())
                            ),
                        ));
                        return res;
                    }
                }
                Err(e) => {
                    eprintln!("HARNESS ERROR: fresh baseline: {e}");
                    std::process::exit(2);
                }
            }
        }
    }
    res
}

// ------------------------------------------------------------------ generators

struct Case {
    run: Run,
    res: C15Result,
    sample: Value,
    retain: bool,
}

fn small_window(rng: &mut Rng, prod: u64) -> Option<(Pos, Pos)> {
    if prod <= 2 && rng.chance(1, 12) {
        return None; // unscoped
    }
    let maxlen = (600 / prod.max(1)).max(1).min(60);
    let len = rng.range(0, maxlen) as usize;
    let fi = match rng.below(5) {
        0 => 0,
        1 => NPOS.saturating_sub(len.max(1)),
        2 => {
            // straddle a row end
            let t = rng.below(47) as u8;
            pos_index((t, 48)).saturating_sub(len / 2)
        }
        _ => rng.usize_below(NPOS),
    };
    let ti = (fi + len).min(NPOS);
    Some((pos_from_index(fi), pos_from_index(ti)))
}

/// Retention case: a few whole-line evaluators with single-combo players, every
/// showdown kept alive by the caller (as a worker returning Vec<Showdown> does)
/// and digested again after all of them finished: thousands of boards later.
fn gen_retention_case(seed: u64) -> Case {
    let mut rng = Rng::new(seed);
    let e = rng.range(3, 5) as usize;
    let mut scens = vec![];
    let mut specs = vec![];
    for i in 0..e {
        let flop = gen_flop(&mut rng);
        let np = rng.range(1, 2) as usize;
        let players: Vec<RangeRecipe> = (0..np).map(|_| RangeRecipe::simple(gen_combos(&mut rng, 1, false).into_iter().map(|c| (c.0, c.1, 1.0f32.to_bits())).collect())).collect();
        scens.push(Scenario { flop, players });
        specs.push(TaskSpec { scen: i, scope: None, pre: vec![], extra_polls: 0 });
    }
    let execs = rng.range(0, 2) as usize;
    let policy = *rng.pick(&[Policy::RoundRobin, Policy::Bursts, Policy::RunToCompletion]);
    let cfg = SchedCfg { policy, crash_resume_pm: 0, restart_pm: 0, max_crashes: 0, migrate: execs > 1, max_steps: 400_000 };
    let mut w = World::new(&scens, &specs, execs);
    w.track_states = false;
    schedule(&mut w, &mut rng, &cfg);
    let run = Run { scens: scens.clone(), specs, steps: w.trace.clone(), execs };
    drop(w);
    let res = check_run_opts(&run, false, true);
    let sample = json!({"retention_case": true, "evaluators": e, "scenarios": scens.iter().map(|s| s.short()).collect::<Vec<_>>(), "executors": execs, "policy": format!("{:?}", policy)});
    Case { run, res, sample, retain: true }
}

/// Gap case: a victim evaluator advances one step at a time while whole-line
/// filler evaluators (one board per step) advance exactly G steps in between,
/// G around powers of two: state keyed by a wrapping counter or stamp.
fn gen_gap_case(seed: u64) -> Case {
    let mut rng = Rng::new(seed);
    let params = ScenParams { max_players: 2, max_product: 4, allow_zero_players: false, hash_seeds: false };
    let victim = gen_scenario(&mut rng, &params);
    let mut scens = vec![victim];
    let fi = rng.usize_below(NPOS - 60);
    let mut specs = vec![TaskSpec { scen: 0, scope: Some((pos_from_index(fi), pos_from_index(fi + rng.range(12, 50) as usize))), pre: vec![], extra_polls: 0 }];
    for i in 0..rng.range(2, 3) as usize {
        // fillers: no players or one single-combo player on cards the victim does not hold
        let flop = gen_flop(&mut rng);
        let players = if rng.chance(1, 2) { vec![] } else { vec![RangeRecipe::simple(gen_combos(&mut rng, 1, false).into_iter().map(|c| (c.0, c.1, 1.0f32.to_bits())).collect())] };
        scens.push(Scenario { flop, players });
        specs.push(TaskSpec { scen: i + 1, scope: None, pre: vec![], extra_polls: 0 });
    }
    let execs = rng.range(0, 1) as usize;
    let cfg = SchedCfg { policy: Policy::Gaps, crash_resume_pm: 0, restart_pm: 0, max_crashes: 0, migrate: false, max_steps: 400_000 };
    let mut w = World::new(&scens, &specs, execs);
    w.track_states = false;
    schedule(&mut w, &mut rng, &cfg);
    let run = Run { scens: scens.clone(), specs, steps: w.trace.clone(), execs };
    drop(w);
    let res = check_run(&run, false);
    let sample = json!({"gap_case": true, "victim": scens[0].short(), "fillers": scens.len() - 1, "trace_head": encode_steps(&run.steps).into_iter().take(10).collect::<Vec<_>>()});
    Case { run, res, sample, retain: false }
}

/// Crowd case: thousands of tiny evaluators alive at once, created in one order
/// and stepped (hence finished and dropped) in another: per-instance tables with a
/// fixed number of slots, instance counters, LIFO/FIFO assumptions.
fn gen_crowd_case(seed: u64) -> Case {
    let mut rng = Rng::new(seed);
    let nscen = 3usize;
    let mut scens = vec![];
    for _ in 0..nscen {
        let flop = gen_flop(&mut rng);
        let k = rng.range(1, 2) as usize;
        let players = if rng.chance(1, 2) { vec![] } else { vec![RangeRecipe::simple(gen_combos(&mut rng, k, false).into_iter().map(|c| (c.0, c.1, 1.0f32.to_bits())).collect())] };
        scens.push(Scenario { flop, players });
    }
    let e = *rng.pick(&[300usize, 1000, 2100, 4200]);
    let mut specs = vec![];
    for _ in 0..e {
        let fi = rng.usize_below(NPOS - 3);
        specs.push(TaskSpec { scen: rng.usize_below(nscen), scope: Some((pos_from_index(fi), pos_from_index(fi + rng.range(1, 3) as usize))), pre: vec![], extra_polls: 0 });
    }
    // every evaluator is created first (one step each, in index order), then they are
    // drained in a shuffled order
    let mut steps: Vec<Step> = (0..e).map(|i| Step { task: i as u16, exec: INLINE, op: Op::Next }).collect();
    let mut order: Vec<usize> = (0..e).collect();
    if rng.chance(1, 2) {
        order.reverse();
    } else {
        rng.shuffle(&mut order);
    }
    for i in order {
        steps.push(Step { task: i as u16, exec: INLINE, op: Op::Drain });
    }
    let run = Run { scens: scens.clone(), specs, steps, execs: 0 };
    let res = check_run(&run, false);
    let sample = json!({"crowd_case": true, "evaluators_alive_at_once": e});
    Case { run, res, sample, retain: false }
}

/// Wide crowd: 14-20 iterators over two any-two-cards ranges are alive (created, on an
/// empty scope, with polls left) while a small evaluator whose range has a weight-0
/// combo runs: tens of thousands of range entries alive at once.
fn gen_wide_crowd_case(seed: u64) -> Case {
    let mut rng = Rng::new(seed);
    let all: Vec<(u8, u8, u32)> = all_combos().into_iter().map(|c| (c.0, c.1, 1.0f32.to_bits())).collect();
    let wide = Scenario { flop: gen_flop(&mut rng), players: vec![RangeRecipe::simple(all.clone()), RangeRecipe::simple(all)] };
    let mut ventries: Vec<(u8, u8, u32)> = gen_combos(&mut rng, 4, false).into_iter().map(|c| (c.0, c.1, 1.0f32.to_bits())).collect();
    ventries[1].2 = 0.0f32.to_bits();
    let victim = Scenario { flop: gen_flop(&mut rng), players: vec![RangeRecipe::simple(ventries)] };
    let scens = vec![victim, wide];
    let fi = rng.usize_below(NPOS - 12);
    let mut specs = vec![TaskSpec { scen: 0, scope: Some((pos_from_index(fi), pos_from_index(fi + 8))), pre: vec![], extra_polls: 0 }];
    let crowd = rng.range(14, 20) as usize;
    for _ in 0..crowd {
        specs.push(TaskSpec { scen: 1, scope: Some((FIRST, FIRST)), pre: vec![], extra_polls: 3 });
    }
    let mut steps: Vec<Step> = (1..=crowd).map(|i| Step { task: i as u16, exec: INLINE, op: Op::Next }).collect();
    steps.push(Step { task: 0, exec: INLINE, op: Op::Drain });
    for i in 1..=crowd {
        steps.push(Step { task: i as u16, exec: INLINE, op: Op::Drain });
    }
    let run = Run { scens: scens.clone(), specs, steps, execs: 0 };
    let res = check_run(&run, false);
    let sample = json!({"wide_crowd_case": true, "live_any_two_cards_iterators": crowd, "victim": scens[0].short()});
    Case { run, res, sample, retain: false }
}

fn gen_case(seed: u64, thorough: bool, fresh: bool) -> Case {
    let mut rng = Rng::new(seed);
    if !fresh && rng.chance(1, 40) {
        return gen_retention_case(rng.next_u64());
    }
    if !fresh && rng.chance(1, 80) {
        let mut c = gen_wide_crowd_case(rng.next_u64());
        *c.res.probes.entry("wide_crowd_runs_30k_plus_live_range_entries".into()).or_insert(0) += 1;
        return c;
    }
    if !fresh && rng.chance(1, 60) {
        let mut c = gen_crowd_case(rng.next_u64());
        *c.res.probes.entry("crowd_runs_300_to_4200_live_evaluators".into()).or_insert(0) += 1;
        return c;
    }
    if !fresh && rng.chance(1, 10) {
        let mut c = gen_gap_case(rng.next_u64());
        *c.res.probes.entry("gap_runs_counter_wrap_schedules".into()).or_insert(0) += 1;
        return c;
    }
    let e = if thorough && rng.chance(1, 10) { rng.range(9, 32) } else { rng.range(1, 8) } as usize;
    let nscen = rng.range(1, e.min(4) as u64) as usize;
    let params = ScenParams { max_players: 3, max_product: 24, allow_zero_players: true, hash_seeds: true };
    let mut scens: Vec<Scenario> = vec![];
    for i in 0..nscen {
        if i > 0 && rng.chance(1, 3) {
            // same ranges, different flop: catches "first flop wins" state
            let mut s = scens[rng.usize_below(i)].clone();
            s.flop = gen_flop(&mut rng);
            scens.push(s);
        } else {
            scens.push(gen_scenario(&mut rng, &params));
        }
    }
    let mut specs: Vec<TaskSpec> = vec![];
    for _ in 0..e {
        if !specs.is_empty() && rng.chance(1, 6) {
            let twin = specs[rng.usize_below(specs.len())].clone();
            specs.push(twin);
            continue;
        }
        let si = rng.usize_below(nscen);
        let prod = scens[si].product().max(1);
        specs.push(TaskSpec {
            scen: si,
            scope: small_window(&mut rng, prod),
            pre: vec![],
            extra_polls: if rng.chance(1, 4) { rng.range(1, 3) as u8 } else { 0 },
        });
    }
    // one run in twenty has a *rogue* neighbour: an evaluator whose scope end lies past
    // the deck (it runs off the end and panics, which is its own business); the
    // well-formed evaluators around it must not notice
    if rng.chance(1, 20) {
        let si = rng.usize_below(nscen);
        let fi = rng.range(1100, 1175) as usize;
        specs.push(TaskSpec { scen: si, scope: Some((pos_from_index(fi), (48, rng.range(50, 60) as u8))), pre: vec![], extra_polls: 0 });
    }
    let execs = match rng.below(4) {
        0 => 0,
        1 => 1,
        _ => rng.range(2, 4) as usize,
    };
    let policy = *rng.pick(&POLICIES);
    let cfg = SchedCfg {
        policy,
        crash_resume_pm: 0,
        restart_pm: if rng.chance(1, 3) { rng.range(2, 20) } else { 0 },
        max_crashes: rng.range(1, 4),
        migrate: execs > 1 && rng.chance(3, 4),
        max_steps: 400_000,
    };
    let mut w = World::new(&scens, &specs, execs);
    w.track_states = false;
    w.drain_cap = scens.iter().map(cap_for).max().unwrap_or(10_000);
    schedule(&mut w, &mut rng, &cfg);
    let run = Run { scens: scens.clone(), specs, steps: w.trace.clone(), execs };
    drop(w);
    let res = check_run(&run, fresh);
    let sample = json!({
        "evaluators": run.specs.len(),
        "scenarios": scens.iter().map(|s| s.short()).collect::<Vec<_>>(),
        "scopes": run.specs.iter().take(8).map(|s| format!("scen{} {}..{}", s.scen, pos_str(s.from()), pos_str(s.to()))).collect::<Vec<_>>(),
        "policy": format!("{:?}", policy),
        "executors": execs,
        "max_live_iterators": res.max_live,
        "faults": res.faults,
        "trace_head": encode_steps(&run.steps).into_iter().take(16).collect::<Vec<_>>(),
    });
    Case { run, res, sample, retain: false }
}

fn run_key(okey: &str, run: &Run) -> String {
    let mut f = Fold::new();
    f.add_str(&run.to_json().to_string());
    format!("{okey}:{:08x}", f.get() as u32)
}

fn to_replay(run: &Run, fresh: bool) -> Value {
    to_replay_r(run, fresh, false)
}

fn to_replay_r(run: &Run, fresh: bool, retain: bool) -> Value {
    let mut rj = run.to_json();
    rj["kind"] = json!("c15_run");
    rj["fresh"] = json!(fresh);
    rj["retain"] = json!(retain);
    rj
}

/// One simulated run as a case of batch `inproc` / `fresh`, or one native concurrent run.
pub fn case(batch: &str, tier: &str, i: u64) -> CaseOut {
    let vs = verif_seed();
    let seed = run_seed(vs, "C15", batch, i);
    let mut out = CaseOut { index: i, seed, evals: 1, ..Default::default() };
    if batch == "thread-history" {
        let mut rng = Rng::new(seed);
        let flop = gen_flop(&mut rng);
        let np = rng.range(1, 2) as usize;
        let texts: Vec<String> = (0..np).map(|_| TEXT_POOL[rng.usize_below(TEXT_POOL.len())].to_string()).collect();
        let fi = rng.usize_below(NPOS - 12);
        let scope = (pos_from_index(fi), pos_from_index(fi + rng.range(2, 10) as usize));
        let big = BIG_TEXTS[rng.usize_below(BIG_TEXTS.len())];
        *out.probes.entry("thread_history_cases".into()).or_insert(0) += 1;
        if let Some(d) = thread_history_case(flop, &texts, scope, big) {
            out.violation = Some((
                "sequence_depends_on_thread_history".into(),
                d,
                json!({"kind":"c15_thread_history","flop": flop.iter().map(|c| card_str(*c)).collect::<String>(), "texts": texts, "scope": [scope.0.0, scope.0.1, scope.1.0, scope.1.1], "big": big}),
            ));
        }
        return out;
    }
    if batch == "range-lifetime" {
        *out.probes.entry("range_lifetime_cases".into()).or_insert(0) += 1;
        if let Some(d) = range_lifetime_case(seed) {
            out.violation = Some(("sequence_depends_on_dead_ranges".into(), d, json!({"kind":"c15_range_lifetime","seed": seed.to_string()})));
        }
        return out;
    }
    if batch == "native-shared" {
        *out.probes.entry("native_shared_showdown_runs".into()).or_insert(0) += 1;
        if let Some(d) = native_shared(seed) {
            out.violation = Some((
                "native_concurrent".into(),
                format!("showdowns shared between threads: {d} (OS schedule: may not replay)"),
                json!({"kind":"c15_native","shared":true,"seed": seed.to_string()}),
            ));
        }
        return out;
    }
    if batch == "native-heavy" {
        *out.probes.entry("native_heavy_runs_16_threads".into()).or_insert(0) += 1;
        if let Some(d) = native_heavy(seed) {
            out.violation = Some((
                "native_concurrent".into(),
                format!("16 threads draining whole-line evaluators concurrently diverged from the alone run: {d} (OS schedule: may not replay)"),
                json!({"kind":"c15_native","heavy":true,"seed": seed.to_string()}),
            ));
        }
        return out;
    }
    if batch == "native" {
        *out.probes.entry("native_concurrent_runs".into()).or_insert(0) += 1;
        if let Some(d) = native_concurrent(seed) {
            out.violation = Some((
                "native_concurrent".into(),
                format!("threads draining their own evaluators concurrently diverged from the alone run: {d} (OS schedule: may not replay)"),
                json!({"kind":"c15_native","seed": seed.to_string()}),
            ));
        }
        return out;
    }
    let fresh = batch == "fresh";
    let c = gen_case(seed, !tier.starts_with("quick"), fresh);
    out.steps = c.res.next_calls;
    out.log = c.res.log;
    let nf: u64 = c.res.faults.values().sum();
    out.faults = c.res.faults.clone();
    out.probes = c.res.probes.clone();
    let mut probe = |k: &str, n: u64| *out.probes.entry(k.to_string()).or_insert(0) += n;
    probe("global_states_seen_sum_over_runs", c.res.states as u64);
    if c.res.max_live >= 3 {
        probe("runs_with_3plus_live_evaluators", 1);
    }
    if c.run.execs >= 2 {
        probe("runs_with_2plus_executors", 1);
    }
    if c.res.max_live >= 2 || nf > 0 {
        let mut f = Fold::new();
        for s in &c.run.scens {
            f.add_str(&s.short());
        }
        for s in &c.run.specs {
            f.add(s.scen as u64);
            f.add(s.from().0 as u64 * 64 + s.from().1 as u64);
            f.add(s.to().0 as u64 * 64 + s.to().1 as u64);
        }
        f.add(c.res.trace_hash);
        out.distinct.push(f.get());
    }
    if c.res.max_live >= 3 {
        out.sample = Some(c.sample.clone());
    }
    out.extra = json!({"trace": c.res.trace_hash.to_string()});
    if let Some((okey, detail)) = &c.res.key {
        let fr = fresh && okey == "run_vs_fresh_process";
        out.violation = Some((okey.clone(), detail.clone(), to_replay_r(&c.run, fr, c.retain)));
    }
    out
}

pub fn eval(v: &Value) -> Option<(String, String)> {
    match v["kind"].as_str().unwrap_or("") {
        "c15_thread_history" => {
            let f = v["flop"].as_str()?;
            let flop = [parse_card(&f[0..2])?, parse_card(&f[2..4])?, parse_card(&f[4..6])?];
            let texts: Vec<String> = v["texts"].as_array()?.iter().filter_map(|x| x.as_str().map(|s| s.to_string())).collect();
            let q: Vec<u8> = v["scope"].as_array()?.iter().map(|x| x.as_u64().unwrap_or(0) as u8).collect();
            let big = v["big"].as_str()?;
            thread_history_case(flop, &texts, ((q[0], q[1]), (q[2], q[3])), big).map(|d| ("sequence_depends_on_thread_history".to_string(), d))
        }
        "c15_range_lifetime" => {
            let seed: u64 = v["seed"].as_str()?.parse().ok()?;
            range_lifetime_case(seed).map(|d| ("sequence_depends_on_dead_ranges".to_string(), d))
        }
        "c15_native" => {
            let seed: u64 = v["seed"].as_str()?.parse().ok()?;
            let heavy = v["heavy"].as_bool().unwrap_or(false);
            let shared = v["shared"].as_bool().unwrap_or(false);
            for _ in 0..20 {
                let r = if shared { native_shared(seed) } else if heavy { native_heavy(seed) } else { native_concurrent(seed) };
                if let Some(d) = r {
                    return Some(("native_concurrent".into(), d));
                }
            }
            None
        }
        _ => {
            let run = Run::from_json(v).ok()?;
            let fresh = v["fresh"].as_bool().unwrap_or(false);
            let retain = v["retain"].as_bool().unwrap_or(false);
            check_run_opts(&run, fresh, retain).key
        }
    }
}

fn minimise_json(replay: &Value, _okey: &str, pred: &dyn Fn(&Value) -> bool) -> (Value, usize) {
    if replay["kind"].as_str() != Some("c15_run") {
        return (replay.clone(), 0);
    }
    let Ok(run) = Run::from_json(replay) else { return (replay.clone(), 0) };
    let fresh = replay["fresh"].as_bool().unwrap_or(false);
    let retain = replay["retain"].as_bool().unwrap_or(false);
    let fails = move |r: &Run| -> bool { pred(&to_replay_r(r, fresh, retain)) };
    let (min, tried) = shrink_run(
        run,
        &fails,
        ShrinkOpts { drop_tasks: true, drop_players: true, narrow_scopes: true, max_candidates: if fresh { 100 } else { 250 } },
    );
    (to_replay_r(&min, fresh, retain), tried)
}

fn key_json(okey: &str, min: &Value) -> String {
    match Run::from_json(min) {
        Ok(run) => run_key(okey, &run),
        Err(_) => {
            let mut f = Fold::new();
            f.add_str(&min.to_string());
            format!("{okey}:{}{:08x}", min["seed"].as_str().unwrap_or(""), f.get() as u32)
        }
    }
}

// ------------------------------------------------- native concurrent supplement

/// Real threads draining their own evaluators at the same time (the OS decides
/// the schedule: not replayable, a supplement to the seeded runs and Miri).
fn native_concurrent(seed: u64) -> Option<String> {
    let mut rng = Rng::new(seed);
    let params = ScenParams { max_players: 3, max_product: 24, allow_zero_players: true, hash_seeds: true };
    let n = rng.range(2, 8) as usize;
    // a small pool of scenarios on two or three different flops, shared by the threads
    let nscen = rng.range(2, 3) as usize;
    let mut pool: Vec<BuiltScen> = vec![];
    for i in 0..nscen {
        let s = if i > 0 && rng.chance(1, 2) {
            let mut s = pool[0].scen.clone();
            s.flop = gen_flop(&mut rng);
            s
        } else {
            gen_scenario(&mut rng, &params)
        };
        pool.push(BuiltScen { scen: s.clone(), ranges: Arc::new(s.build_ranges()) });
    }
    // every thread gets a few (scenario, window) tasks and repeats them many times:
    // construction and draining of short evaluators on alternating flops, concurrently
    let mut jobs: Vec<Vec<(BuiltScen, TaskSpec)>> = vec![];
    for _ in 0..n {
        let mut mine = vec![];
        for _ in 0..rng.range(2, 3) {
            let b = pool[rng.usize_below(nscen)].clone();
            let prod = b.scen.product().max(1);
            let maxlen = (60 / prod).max(1).min(12);
            let fi = rng.usize_below(NPOS);
            let ti = (fi + rng.range(0, maxlen) as usize).min(NPOS);
            mine.push((b, TaskSpec { scen: 0, scope: Some((pos_from_index(fi), pos_from_index(ti))), pre: vec![], extra_polls: 0 }));
        }
        jobs.push(mine);
    }
    let rounds = 40usize;
    // baselines come from *separately built* ranges (same recipe, same layout): the
    // shared range objects themselves are first touched by the concurrent threads
    let alone: Vec<Vec<Vec<Out>>> = jobs
        .iter()
        .map(|mine| {
            mine.iter()
                .map(|(b, s)| {
                    let fresh = BuiltScen { scen: b.scen.clone(), ranges: Arc::new(b.scen.build_ranges()) };
                    alone_inproc(&fresh, s)
                })
                .collect()
        })
        .collect();
    let barrier = Arc::new(std::sync::Barrier::new(n));
    let hs: Vec<_> = jobs
        .iter()
        .cloned()
        .zip(alone.iter().cloned())
        .map(|(mine, want)| {
            let bar = barrier.clone();
            std::thread::Builder::new()
                .stack_size(64 << 20)
                .spawn(move || -> Option<String> {
                    bar.wait();
                    for round in 0..rounds {
                        for (k, (b, s)) in mine.iter().enumerate() {
                            let got = alone_inproc(b, s);
                            if !same_seq(&got, &want[k]) {
                                return Some(format!("round {round}, {} scope {}..{}: {}", b.scen.short(), pos_str(s.from()), pos_str(s.to()), first_diff(&got, &want[k])));
                            }
                        }
                    }
                    None
                })
                .unwrap()
        })
        .collect();
    let mut res = None;
    for (i, h) in hs.into_iter().enumerate() {
        match h.join() {
            Ok(Some(d)) => res = res.or(Some(format!("thread {i} of {n}: {d}"))),
            Ok(None) => {}
            Err(_) => res = res.or(Some(format!("thread {i} of {n}: panic escaped"))),
        }
    }
    res
}

const TEXT_POOL: [&str; 10] = ["QQ,AKs", "JJ-99", "A5s-A2s,KQo:0.5", "T9s,98s,87s", "AA,KK:0.5,QQ", "AKo", "76s,65s:0.25", "KQs-KTs", "55-22", "AJs+,KQs"];
const BIG_TEXTS: [&str; 3] = ["22+,A2s+,K2s+,Q2s+,J2s+,A2o+,K2o+", "22+,A2s+,K2s+,Q2s+,J2s+,T2s+,92s+,82s+,72s+,62s+,52s+,42s+,32s,A2o+,K2o+,Q2o+,J2o+,T2o+,92o+,82o+,72o+,62o+,52o+,42o+,32o", "AA,AKs,AKo,KK,AQs"];

fn history_drain(flop: [u8; 3], texts: &[String], scope: (Pos, Pos), prelude: Option<&str>) -> Vec<Out> {
    use espada::hand_range::HandRange;
    if let Some(big) = prelude {
        // what the thread did before: parsed, formatted and iterated a large range
        if let Ok(r) = big.parse::<HandRange>() {
            let _ = crate::evalrun::guarded(|| (r.to_string(), r.card_pairs().len()));
        }
    }
    let ranges: Vec<HandRange> = texts.iter().map(|t| t.parse::<HandRange>().unwrap_or_else(|_| HandRange::empty())).collect();
    drain(&flop, &ranges, &[scope], 2_000_000).0
}

/// Does what a thread did *before* (parsing other ranges) change the sequence of an
/// evaluator built afterwards from freshly parsed ranges? Only judged when two
/// fresh threads agree exactly (a per-instance random hasher would make them
/// differ, and then order is nobody's promise).
fn thread_history_case(flop: [u8; 3], texts: &[String], scope: (Pos, Pos), big: &str) -> Option<String> {
    let a = fresh_thread(|| history_drain(flop, texts, scope, None));
    let b = fresh_thread(|| history_drain(flop, texts, scope, None));
    if !same_seq(&a, &b) {
        return None;
    }
    let c = fresh_thread(|| history_drain(flop, texts, scope, Some(big)));
    if !same_seq(&c, &a) {
        return Some(format!(
            "ranges {:?} parsed on a fresh thread give the same sequence twice, but parsed after the thread had handled '{}…' the evaluator's sequence differs: {}",
            texts,
            &big[..big.len().min(24)],
            first_diff(&c, &a)
        ));
    }
    None
}

/// Range lifetime: an iterator stays alive while every range object it was built from
/// is dropped; then other ranges of the same size are built (the allocator tends to
/// hand out the recycled address) and an evaluator over them must still give the
/// sequence it gives in a fresh thread where nothing else ever lived.
fn range_lifetime_case(seed: u64) -> Option<String> {
    let mut rng = Rng::new(seed);
    let k = rng.range(2, 6) as usize;
    let flop = gen_flop(&mut rng);
    let mk = |rng: &mut Rng| -> Scenario {
        Scenario { flop, players: vec![RangeRecipe::simple(gen_combos(rng, k, false).into_iter().map(|c| (c.0, c.1, 1.0f32.to_bits())).collect())] }
    };
    let a = mk(&mut rng);
    let b = mk(&mut rng);
    let fi = rng.usize_below(NPOS - 20);
    let scope = [(pos_from_index(fi), pos_from_index(fi + 12))];
    let want = fresh_thread(|| drain(&b.flop, &b.build_ranges(), &scope, 100_000).0);
    for _ in 0..8 {
        let ra = a.build_ranges();
        let mut live = Stepper::new(&a.flop, &ra, &scope).ok()?;
        let _ = live.step();
        drop(ra); // the source ranges die, the iterator lives on
        let rb = b.build_ranges();
        let got = drain(&b.flop, &rb, &scope, 100_000).0;
        let _ = live.step();
        if !same_seq(&got, &want) {
            return Some(format!(
                "while an iterator over {} was still alive but its source ranges had been dropped, an evaluator over {} gave another sequence than in a fresh thread: {}",
                a.short(), b.short(), first_diff(&got, &want)
            ));
        }
    }
    None
}

/// Heavy native run: 16 threads, each draining whole-line evaluators over
/// multi-combo ranges on its own flop at the same time, several rounds. Volume
/// is the point: races in process-wide tables need many concurrent hands.
fn native_heavy(seed: u64) -> Option<String> {
    let mut rng = Rng::new(seed);
    let n = 16usize;
    let mut jobs: Vec<BuiltScen> = vec![];
    for _ in 0..n {
        let flop = gen_flop(&mut rng);
        let mut players = vec![];
        for _ in 0..2 {
            // two pocket pairs (12 combos), weights 1
            let mut e = vec![];
            for _ in 0..2 {
                let r = rng.below(13) as u8;
                for a in 0..4u8 {
                    for b in (a + 1)..4u8 {
                        let c = (r * 4 + a, r * 4 + b, 1.0f32.to_bits());
                        if !e.contains(&c) {
                            e.push(c);
                        }
                    }
                }
            }
            players.push(RangeRecipe::simple(e));
        }
        let s = Scenario { flop, players };
        jobs.push(BuiltScen { scen: s.clone(), ranges: Arc::new(s.build_ranges()) });
    }
    // every second thread works on the very same range objects as its neighbour
    for i in (1..n).step_by(2) {
        jobs[i] = jobs[i - 1].clone();
    }
    let spec = TaskSpec { scen: 0, scope: None, pre: vec![], extra_polls: 0 };
    let alone: Vec<Vec<Out>> = jobs
        .iter()
        .map(|b| {
            let fresh = BuiltScen { scen: b.scen.clone(), ranges: Arc::new(b.scen.build_ranges()) };
            alone_inproc(&fresh, &spec)
        })
        .collect();
    let barrier = Arc::new(std::sync::Barrier::new(n));
    let hs: Vec<_> = jobs
        .iter()
        .cloned()
        .zip(alone.iter().cloned())
        .map(|(b, want)| {
            let bar = barrier.clone();
            let spec = spec.clone();
            std::thread::Builder::new()
                .stack_size(64 << 20)
                .spawn(move || -> Option<String> {
                    let mut bad = None;
                    for round in 0..3 {
                        bar.wait();
                        let got = alone_inproc(&b, &spec);
                        if bad.is_none() && !same_seq(&got, &want) {
                            bad = Some(format!("round {round}, {}: {}", b.scen.short(), first_diff(&got, &want)));
                        }
                    }
                    bad
                })
                .unwrap()
        })
        .collect();
    let mut res = None;
    for (i, h) in hs.into_iter().enumerate() {
        match h.join() {
            Ok(Some(d)) => res = res.or(Some(format!("thread {i} of {n}: {d}"))),
            Ok(None) => {}
            Err(_) => res = res.or(Some(format!("thread {i} of {n}: panic escaped"))),
        }
    }
    res
}

/// Shared showdowns: one collection of showdowns behind an Arc, digested by four
/// threads at the same time (every accessor of every showdown and player), then
/// once more afterwards; all must equal the digests of an identical collection
/// that only one thread ever touched.
fn native_shared(seed: u64) -> Option<String> {
    let mut rng = Rng::new(seed);
    let params = ScenParams { max_players: 3, max_product: 12, allow_zero_players: false, hash_seeds: false };
    let scen = gen_scenario(&mut rng, &params);
    let ranges = scen.build_ranges();
    let fi = rng.usize_below(NPOS - 40);
    let scope = [(pos_from_index(fi), pos_from_index(fi + 40))];
    let collect = || -> Option<Vec<espada::evaluator::Showdown>> {
        let mut st = Stepper::new(&scen.flop, &ranges, &scope).ok()?;
        let mut v = vec![];
        while let Ok(Some(sd)) = st.step_raw() {
            v.push(sd);
            if v.len() >= 3000 {
                break;
            }
        }
        Some(v)
    };
    let reference = collect()?;
    let dm = DeckMap::new(&scen.flop);
    let want: Vec<Out> = reference.iter().map(|s| digest(s, &dm)).collect();
    let shared = Arc::new(collect()?);
    if shared.len() != want.len() {
        return Some("two identical evaluators collected different numbers of showdowns".into());
    }
    let n = 4usize;
    let barrier = Arc::new(std::sync::Barrier::new(n));
    let flop = scen.flop;
    let hs: Vec<_> = (0..n)
        .map(|_| {
            let sh = shared.clone();
            let bar = barrier.clone();
            std::thread::spawn(move || -> Vec<Out> {
                let dm = DeckMap::new(&flop);
                bar.wait();
                sh.iter().map(|s| digest(s, &dm)).collect()
            })
        })
        .collect();
    let mut res = None;
    for (i, h) in hs.into_iter().enumerate() {
        match h.join() {
            Ok(got) => {
                if let Some(k) = (0..want.len()).find(|k| got[*k] != want[*k]) {
                    res = res.or(Some(format!("thread {i} of {n} reading a shared showdown (#{k} of {}, {}) saw {} where a showdown no other thread touched gives {}", want.len(), scen.short(), got[k].short(), want[k].short())));
                }
            }
            Err(_) => res = res.or(Some(format!("thread {i} of {n}: panic while reading shared showdowns"))),
        }
    }
    if res.is_none() {
        let after: Vec<Out> = shared.iter().map(|s| digest(s, &dm)).collect();
        if let Some(k) = (0..want.len()).find(|k| after[*k] != want[*k]) {
            res = Some(format!("after four threads read it, shared showdown #{k} digests to {} instead of {}", after[k].short(), want[k].short()));
        }
    }
    res
}

// ---------------------------------------------------------------- sub-checks

/// Compile-time Send/Sync probe (separate crate). Ok(true) = bounds hold.
fn sendsync_probe() -> Result<(bool, String), String> {
    let dir = verif_dir().join("sendsync");
    let target = std::env::var("CARGO_TARGET_DIR").unwrap_or_else(|_| verif_dir().join("sim/target").display().to_string());
    let mut cmd = Command::new("cargo");
    cmd.arg("check").arg("--offline").arg("--manifest-path").arg(dir.join("Cargo.toml"));
    if let Ok(repo) = std::env::var("ESPADA_REPO") {
        if repo != "/repo" {
            cmd.arg("--config").arg(format!("paths=[\"{repo}\"]"));
        }
    }
    cmd.env("CARGO_TARGET_DIR", format!("{target}/sendsync"));
    let out = cmd.output().map_err(|e| format!("cargo check: {e}"))?;
    let text = String::from_utf8_lossy(&out.stderr).to_string();
    if out.status.success() {
        return Ok((true, String::new()));
    }
    if text.contains("E0277") && (text.contains("cannot be sent between threads safely") || text.contains("cannot be shared between threads safely")) {
        return Ok((false, text));
    }
    if ["does not live long enough", "is borrowed for `'static`", "must outlive `'static`", "E0597", "E0521", "E0716", "E0505"].iter().any(|m| text.contains(m)) {
        return Ok((false, text));
    }
    Err(format!("Send/Sync probe failed to build for another reason:\n{}", text.lines().filter(|l| l.starts_with("error")).take(5).collect::<Vec<_>>().join("\n")))
}

fn miri_tier(vs: u64, seeds: u64) -> Result<(u64, Option<String>), String> {
    let script = verif_dir().join("miri_c15/run.sh");
    if !script.exists() {
        return Err("miri_c15/run.sh missing".into());
    }
    let lo = (vs.wrapping_mul(1000)) % 1_000_000;
    let out = Command::new("bash")
        .arg(&script)
        .arg(lo.to_string())
        .arg((lo + seeds).to_string())
        .output()
        .map_err(|e| e.to_string())?;
    let text = format!("{}{}", String::from_utf8_lossy(&out.stdout), String::from_utf8_lossy(&out.stderr));
    if out.status.success() {
        return Ok((seeds, None));
    }
    if text.contains("MIRI-C15-DIVERGENCE") || text.contains("Data race detected") || text.contains("Undefined Behavior") || text.contains("FAILING SEED") {
        return Ok((seeds, Some(text)));
    }
    Err(format!("miri tier could not run:\n{}", text.lines().rev().take(15).collect::<Vec<_>>().into_iter().rev().collect::<Vec<_>>().join("\n")))
}

pub fn run(tier: &str) -> i32 {
    let vs = verif_seed();
    let quick = tier == "quick";
    let mut ev = Evidence::new("C15", tier, "exploration");
    ev.rule = "one evaluation = one simulated run: E live evaluators stepped one next() at a time by the seeded scheduler on K executor threads, compared with the same evaluators drained alone (before, after, and — in the 'fresh' batch — in a fresh process each); plus one evaluation per Miri seed and per native concurrent run. distinct_nontrivial = distinct (scenarios, scopes, schedule trace) hashes of runs in which >= 2 iterators were alive at once or >= 1 fault fired".into();
    ev.assumptions = vec![
        "call-granularity interleaving is complete only while the crate has no shared mutable state; the source inventory is re-run on every invocation and, when it is non-empty, the quick tier also runs the Miri tier (preemption inside calls)".into(),
        "across processes sequences are compared per position as multisets (a process-keyed hasher is not forbidden by the property)".into(),
        "native concurrent runs are a non-replayable supplement; the deciding runs are the seeded ones and Miri's seeded schedules".into(),
    ];
    let inv = inventory();
    let mut logfold = Fold::new();

    // oracle 3: Send/Sync
    match sendsync_probe() {
        Ok((true, _)) => {
            ev.probe("send_sync_probe_compiled", 1);
        }
        Ok((false, diag)) => {
            let first = diag.lines().find(|l| l.contains("cannot be")).unwrap_or("").trim().to_string();
            ev.violations.push(Violation {
                property: "C15".into(),
                oracle: "send_sync".into(),
                key: format!("send_sync:{}", first.chars().filter(|c| c.is_ascii_alphanumeric() || *c == '`' || *c == ' ').take(80).collect::<String>()),
                detail: format!("a public type lost Send/Sync: {first}"),
                seed: vs,
                replay: json!({"kind":"c15_sendsync","diagnostic": diag.lines().take(60).collect::<Vec<_>>()}),
            });
        }
        Err(e) => {
            eprintln!("HARNESS ERROR: {e}");
            return 2;
        }
    }

    // seeded runs in chunked child processes: in-process oracles, a fresh-process
    // batch, and the native concurrent supplement
    let n_plain: u64 = if quick { 1500 } else { 150_000 };
    let n_fresh: u64 = if quick { 250 } else { 12_000 };
    let n_native: u64 = if quick { 60 } else { 1500 };
    let mut traces: std::collections::BTreeSet<u64> = Default::default();
    let chunk: u64 = if quick { 8 } else { 64 };
    let n_heavy: u64 = if quick { 3 } else { 48 };
    let n_shared: u64 = if quick { 40 } else { 1000 };
    let n_hist: u64 = if quick { 120 } else { 3000 };
    let n_life: u64 = if quick { 120 } else { 3000 };
    for (batch, n) in [("inproc", n_plain), ("fresh", n_fresh), ("thread-history", n_hist), ("range-lifetime", n_life), ("native", n_native), ("native-heavy", n_heavy), ("native-shared", n_shared)] {
        let chunk = if batch == "native-heavy" { 1 } else { chunk };
        let chunks = run_batch("C15", batch, n, chunk, tier, false);
        for (ci, ch) in chunks.iter().enumerate() {
            let chunk_first = ci as u64 * chunk;
            if let Some((i, how)) = &ch.died {
                ev.violations.push(Violation {
                    property: "C15".into(),
                    oracle: "process_died".into(),
                    key: format!("process_died:history:{batch}:{chunk_first}..={i}"),
                    detail: format!("the process running the evaluators ended with {how} at case {i} of batch '{batch}'"),
                    seed: vs,
                    replay: json!({"kind":"chunk","batch":batch,"first":chunk_first,"upto":i,"tier":tier,"expected_oracle":"process_died"}),
                });
            }
            for c in &ch.cases {
                ev.merge_case(c);
                logfold.add(c.log);
                if let Some(t) = c.extra["trace"].as_str().and_then(|t| t.parse::<u64>().ok()) {
                    traces.insert(t);
                }
                if let Some(sm) = &c.sample {
                    if ev.samples.len() < 8 {
                        ev.sample(sm.clone());
                    }
                }
                if c.violation.is_some() {
                    if ev.violations.len() < 5 {
                        let mut v = settle_violation("C15", batch, tier, false, chunk_first, c, &minimise_json, &key_json);
                        if let Ok(run) = Run::from_json(&v.replay) {
                            v.detail = format!("{} evaluators, {} steps, {} executors: {}", run.specs.len(), run.steps.len(), run.execs, v.detail);
                        }
                        ev.violations.push(v);
                    } else {
                        ev.probe("further_violations_not_minimised", 1);
                    }
                }
            }
        }
    }
    // the same simulated runs, fewer, by the dev-profile binary (overflow checks,
    // debug assertions): a change that only misbehaves in one build profile
    {
        let n_dev: u64 = if quick { 120 } else { 3000 };
        let n_dev_fresh: u64 = if quick { 60 } else { 600 };
        let tdev = format!("{tier}/dev");
        for (dbatch, dn) in [("inproc", n_dev), ("fresh", n_dev_fresh)] {
        let chunks = run_batch("C15", dbatch, dn, chunk, &tdev, true);
        for (ci, ch) in chunks.iter().enumerate() {
            let chunk_first = ci as u64 * chunk;
            if let Some((i, how)) = &ch.died {
                ev.violations.push(Violation {
                    property: "C15".into(),
                    oracle: "process_died".into(),
                    key: format!("dev:process_died:history:{dbatch}:{chunk_first}..={i}"),
                    detail: format!("[dev profile] the process running the evaluators ended with {how} at case {i}"),
                    seed: vs,
                    replay: json!({"kind":"chunk","batch":dbatch,"first":chunk_first,"upto":i,"tier":tdev,"profile":"dev","expected_oracle":"process_died"}),
                });
            }
            for c in &ch.cases {
                ev.merge_case(c);
                ev.fault("profile_dev", 1);
                logfold.add(c.log);
                if c.violation.is_some() && ev.violations.len() < 5 {
                    let mut v = settle_violation("C15", dbatch, &tdev, true, chunk_first, c, &minimise_json, &key_json);
                    v.detail = format!("[dev profile] {}", v.detail);
                    v.key = format!("dev:{}", v.key);
                    ev.violations.push(v);
                }
            }
        }
        }
    }
    ev.probe("distinct_schedule_traces", traces.len() as u64);

    // Miri tier: thorough always; quick only when the inventory is non-empty
    // quick: a few seeds always (safety net for shared state the source inventory
    // cannot see), more when the inventory is non-empty; thorough: 64
    let miri_seeds: u64 = if quick { if inv.is_empty() { 4 } else { 16 } } else { 256 };
    if miri_seeds > 0 {
        match miri_tier(vs, miri_seeds) {
            Ok((n, None)) => {
                ev.evaluations += n;
                ev.probe("miri_seeds_clean", n);
            }
            Ok((n, Some(text))) => {
                ev.evaluations += n;
                let line = text
                    .lines()
                    .find(|l| l.contains("MIRI-C15-DIVERGENCE") || l.contains("Data race") || l.contains("Undefined Behavior"))
                    .unwrap_or("miri failure")
                    .trim()
                    .to_string();
                let seedline = text.lines().find(|l| l.contains("FAILING SEED")).unwrap_or("").trim().to_string();
                ev.violations.push(Violation {
                    property: "C15".into(),
                    oracle: "miri_preemptive_schedule".into(),
                    key: format!("miri:{}", line.chars().take(60).collect::<String>()),
                    detail: format!("{line} {seedline}"),
                    seed: vs,
                    replay: json!({"kind":"c15_miri","seed_line": seedline, "flags": "-Zmiri-preemption-rate=0.3", "output_tail": text.lines().rev().take(30).collect::<Vec<_>>()}),
                });
            }
            Err(e) => {
                // Miri not being able to interpret the program (an unsupported operation
                // in a changed tree, a missing toolchain component) is not a verdict on
                // the property and not a reason to discard the seeded runs above
                eprintln!("note: the Miri tier could not run: {e}");
                ev.probe("miri_tier_could_not_run", 1);
                ev.assumptions.push("the Miri tier could not run on this tree; intra-call schedules were explored only by the native thread batches".into());
            }
        }
    } else {
        ev.probe("miri_tier_skipped_inventory_empty", 1);
    }
    ev.extra.insert("inventory_shared_state".into(), json!(inv));
    ev.extra.insert("event_log_digest".into(), json!(format!("{:016x}", logfold.get())));
    ev.extra.insert("components".into(), json!({
        "real": ["FlopExhaustiveEvaluator + iterator next() on real OS threads", "Showdown", "HandRange shared by Arc", "auto Send/Sync of the public types (compile-time probe)"],
        "stub": [],
        "simulated": ["which evaluator advances next", "which executor thread runs the call (one runnable at a time)", "crash_restart", "fresh-process baselines", "Miri: preemption inside calls from a seeded schedule"],
    }));
    ev.finish()
}

pub fn replay(v: &Value) -> Option<(String, String)> {
    let r = &v["replay"];
    match r["kind"].as_str().unwrap_or("") {
        "chunk" => replay_chunk("C15", r),
        "c15_run" => {
            let run = Run::from_json(r).ok()?;
            let dev = r["profile"].as_str() == Some("dev");
            eval_in_child("C15", r, dev).map(|(k, d)| (format!("{}{}", if dev { "dev:" } else { "" }, run_key(&k, &run)), d))
        }
        "c15_sendsync" => match sendsync_probe() {
            Ok((false, diag)) => {
                let first = diag.lines().find(|l| l.contains("cannot be")).unwrap_or("").trim().to_string();
                Some((v["key"].as_str().unwrap_or("send_sync").to_string(), first))
            }
            _ => None,
        },
        "c15_native" | "c15_thread_history" | "c15_range_lifetime" => eval_in_child("C15", r, false).map(|(k, d)| (key_json(&k, r), d)),
        "c15_miri" => match miri_tier(verif_seed(), 64) {
            Ok((_, Some(t))) => Some((v["key"].as_str().unwrap_or("").to_string(), t.lines().rev().take(5).collect::<Vec<_>>().join(" | "))),
            _ => None,
        },
        _ => None,
    }
}
