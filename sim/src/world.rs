//! The simulated world shared by C04, C15 and C16: tasks are real evaluator
//! iterators; a step advances exactly one task by one `next()` (or injects a
//! fault) on a chosen executor thread. Only the scheduler decides who runs.

use crate::cards::*;
use crate::evalrun::*;
use crate::rng::{Fold, Rng};
use crate::scenario::Scenario;
use espada::hand_range::HandRange;
use serde_json::{json, Value};
use std::collections::BTreeMap;
use std::sync::mpsc::{channel, Sender};
use std::sync::Arc;

// ------------------------------------------------------------------ executors

type Job = Box<dyn FnOnce() + Send + 'static>;

/// K real OS threads, each parked on its own channel. `call` hands a closure
/// to executor k and blocks until it is done, so exactly one thread is ever
/// runnable: thread identity is real, the schedule is ours.
pub struct ExecPool {
    txs: Vec<Sender<Job>>,
    handles: Vec<std::thread::JoinHandle<()>>,
}

pub const INLINE: u8 = 255;

impl ExecPool {
    pub fn new(k: usize) -> ExecPool {
        let mut txs = vec![];
        let mut handles = vec![];
        for i in 0..k {
            let (tx, rx) = channel::<Job>();
            txs.push(tx);
            handles.push(
                std::thread::Builder::new()
                    .name(format!("executor-{i}"))
                    .stack_size(crate::util::BIG_STACK)
                    .spawn(move || {
                        while let Ok(job) = rx.recv() {
                            job();
                        }
                    })
                    .expect("spawn executor"),
            );
        }
        ExecPool { txs, handles }
    }
    pub fn len(&self) -> usize {
        self.txs.len()
    }
    pub fn call<R: Send + 'static>(&self, k: u8, f: impl FnOnce() -> R + Send + 'static) -> R {
        if k == INLINE || self.txs.is_empty() {
            return f();
        }
        let k = (k as usize) % self.txs.len();
        let (rtx, rrx) = channel::<R>();
        self.txs[k]
            .send(Box::new(move || {
                let r = f();
                let _ = rtx.send(r);
            }))
            .expect("executor alive");
        rrx.recv().expect("executor reply")
    }
}

impl Drop for ExecPool {
    fn drop(&mut self) {
        self.txs.clear();
        for h in self.handles.drain(..) {
            let _ = h.join();
        }
    }
}

// ---------------------------------------------------------------------- model

#[derive(Clone, Debug, PartialEq)]
pub struct TaskSpec {
    pub scen: usize,
    /// None = unscoped evaluator (no scope() call at all)
    pub scope: Option<(Pos, Pos)>,
    /// scope() calls made before the one that counts (rescope fault)
    pub pre: Vec<(Pos, Pos)>,
    /// extra polls allowed after the first None
    pub extra_polls: u8,
}

impl TaskSpec {
    pub fn from(&self) -> Pos {
        self.scope.map(|s| s.0).unwrap_or(FIRST)
    }
    pub fn to(&self) -> Pos {
        self.scope.map(|s| s.1).unwrap_or(TERMINAL)
    }
    pub fn to_json(&self) -> Value {
        json!({
            "scen": self.scen,
            "scope": self.scope.map(|(f,t)| vec![f.0,f.1,t.0,t.1]),
            "pre": self.pre.iter().map(|(f,t)| vec![f.0,f.1,t.0,t.1]).collect::<Vec<_>>(),
            "extra_polls": self.extra_polls,
        })
    }
    pub fn from_json(v: &Value) -> Result<TaskSpec, String> {
        fn quad(v: &Value) -> Result<(Pos, Pos), String> {
            let a = v.as_array().ok_or("scope array")?;
            if a.len() != 4 {
                return Err("scope len".into());
            }
            let g = |i: usize| a[i].as_u64().unwrap_or(0) as u8;
            Ok(((g(0), g(1)), (g(2), g(3))))
        }
        let scope = if v["scope"].is_null() {
            None
        } else {
            Some(quad(&v["scope"])?)
        };
        let mut pre = vec![];
        if let Some(a) = v["pre"].as_array() {
            for x in a {
                pre.push(quad(x)?);
            }
        }
        Ok(TaskSpec {
            scen: v["scen"].as_u64().unwrap_or(0) as usize,
            scope,
            pre,
            extra_polls: v["extra_polls"].as_u64().unwrap_or(0) as u8,
        })
    }
}

#[derive(Clone, Copy, Debug, PartialEq, Eq)]
pub enum Op {
    /// one next() call (creates the iterator first if the task has none)
    Next,
    /// next() until the first None/panic, then `extra_polls` more polls
    Drain,
    /// crash: drop the iterator, keep positions known complete, resume with scope(p,to)
    CrashResume,
    /// crash: drop iterator and everything it produced, run the shard again
    Restart,
}

#[derive(Clone, Copy, Debug, PartialEq, Eq)]
pub struct Step {
    pub task: u16,
    pub exec: u8,
    pub op: Op,
}

impl Step {
    pub fn enc(&self) -> String {
        let o = match self.op {
            Op::Next => "N",
            Op::Drain => "D",
            Op::CrashResume => "C",
            Op::Restart => "R",
        };
        format!("{}:{}:{}", self.task, self.exec, o)
    }
    pub fn dec(s: &str) -> Result<Step, String> {
        let p: Vec<&str> = s.split(':').collect();
        if p.len() != 3 {
            return Err(format!("bad step {s}"));
        }
        Ok(Step {
            task: p[0].parse().map_err(|_| "task")?,
            exec: p[1].parse().map_err(|_| "exec")?,
            op: match p[2] {
                "N" => Op::Next,
                "D" => Op::Drain,
                "C" => Op::CrashResume,
                "R" => Op::Restart,
                x => return Err(format!("bad op {x}")),
            },
        })
    }
}

pub fn encode_steps(steps: &[Step]) -> Vec<String> {
    let mut out: Vec<String> = vec![];
    let mut i = 0;
    while i < steps.len() {
        let mut j = i;
        while j + 1 < steps.len() && steps[j + 1] == steps[i] {
            j += 1;
        }
        let n = j - i + 1;
        if n > 1 {
            out.push(format!("{}*{}", steps[i].enc(), n));
        } else {
            out.push(steps[i].enc());
        }
        i = j + 1;
    }
    out
}

pub fn decode_steps(v: &Value) -> Result<Vec<Step>, String> {
    let mut out = vec![];
    for s in v.as_array().ok_or("steps")? {
        let s = s.as_str().ok_or("step str")?;
        let (body, n) = match s.split_once('*') {
            Some((b, n)) => (b, n.parse::<usize>().map_err(|_| "count")?),
            None => (s, 1),
        };
        let st = Step::dec(body)?;
        for _ in 0..n {
            out.push(st);
        }
    }
    Ok(out)
}

/// One life of a task's iterator.
#[derive(Clone, Debug)]
pub struct Incarnation {
    pub from: Pos,
    pub to: Pos,
    pub outs: Vec<Out>,
    /// how many leading outs survive the crash that ended this incarnation
    /// (== outs.len() for the live/last one)
    pub durable: usize,
    pub crashed: bool,
    /// created from a checkpoint by scope(p, to) after a crash_resume
    pub resumed: bool,
    pub threads: Vec<u8>,
}

pub struct TaskState {
    pub spec: TaskSpec,
    pub incs: Vec<Incarnation>,
    pub stepper: Option<Stepper>,
    pub ended: bool,
    pub dead: bool,
    pub polls_after_end: u8,
    pub anomaly: Option<String>,
    pub last_exec: u8,
    pub migrations: u64,
}

impl TaskState {
    /// What the task is considered to have produced: durable parts of crashed
    /// incarnations followed by the last incarnation's outcomes.
    pub fn effective(&self) -> Vec<Out> {
        let mut v = vec![];
        for (i, inc) in self.incs.iter().enumerate() {
            if i + 1 == self.incs.len() {
                v.extend(inc.outs.iter().cloned());
            } else {
                v.extend(inc.outs[..inc.durable].iter().cloned());
            }
        }
        v
    }
    pub fn runnable(&self) -> bool {
        !self.dead && (!self.ended || self.polls_after_end < self.spec.extra_polls)
    }
    pub fn can_crash(&self) -> bool {
        !self.dead && !self.ended && self.stepper.is_some()
    }
}

#[derive(Clone)]
pub struct BuiltScen {
    pub scen: Scenario,
    pub ranges: Arc<Vec<HandRange>>,
}

pub struct World {
    pub scens: Vec<BuiltScen>,
    pub tasks: Vec<TaskState>,
    pub pool: ExecPool,
    pub steps_done: u64,
    pub next_calls: u64,
    pub faults: BTreeMap<String, u64>,
    pub log: Fold,
    pub trace: Vec<Step>,
    pub state_hashes: std::collections::BTreeSet<u64>,
    pub drain_cap: u64,
    pub track_states: bool,
    /// keep every yielded Showdown alive until the end of the run and digest it
    /// again then (a showdown is a value: it must not change after it was yielded)
    pub retain: bool,
    pub retained: Vec<(usize, u64, espada::evaluator::Showdown)>,
    task_hash: Vec<u64>,
    state_acc: u64,
}

#[derive(Clone, Debug, PartialEq)]
pub struct Run {
    pub scens: Vec<Scenario>,
    pub specs: Vec<TaskSpec>,
    pub steps: Vec<Step>,
    pub execs: usize,
}

impl Run {
    pub fn to_json(&self) -> Value {
        json!({
            "kind": "world",
            "scenarios": self.scens.iter().map(|s| s.to_json()).collect::<Vec<_>>(),
            "tasks": self.specs.iter().map(|s| s.to_json()).collect::<Vec<_>>(),
            "executors": self.execs,
            "steps": encode_steps(&self.steps),
        })
    }
    pub fn from_json(v: &Value) -> Result<Run, String> {
        let mut scens = vec![];
        for s in v["scenarios"].as_array().ok_or("scenarios")? {
            scens.push(Scenario::from_json(s)?);
        }
        let mut specs = vec![];
        for s in v["tasks"].as_array().ok_or("tasks")? {
            specs.push(TaskSpec::from_json(s)?);
        }
        Ok(Run {
            scens,
            specs,
            steps: decode_steps(&v["steps"])?,
            execs: v["executors"].as_u64().unwrap_or(0) as usize,
        })
    }
}

impl World {
    pub fn new(scens: &[Scenario], specs: &[TaskSpec], execs: usize) -> World {
        let built: Vec<BuiltScen> = scens
            .iter()
            .map(|s| BuiltScen {
                scen: s.clone(),
                ranges: Arc::new(s.build_ranges()),
            })
            .collect();
        World::with_built(built, specs, execs)
    }

    pub fn with_built(built: Vec<BuiltScen>, specs: &[TaskSpec], execs: usize) -> World {
        let tasks = specs
            .iter()
            .map(|sp| TaskState {
                spec: sp.clone(),
                incs: vec![Incarnation {
                    from: sp.from(),
                    to: sp.to(),
                    outs: vec![],
                    durable: 0,
                    crashed: false,
                    resumed: false,
                    threads: vec![],
                }],
                stepper: None,
                ended: false,
                dead: false,
                polls_after_end: 0,
                anomaly: None,
                last_exec: INLINE,
                migrations: 0,
            })
            .collect();
        World {
            scens: built,
            tasks,
            pool: ExecPool::new(execs),
            steps_done: 0,
            next_calls: 0,
            faults: BTreeMap::new(),
            log: Fold::new(),
            trace: vec![],
            state_hashes: Default::default(),
            drain_cap: 50_000_000,
            track_states: true,
            retain: false,
            retained: vec![],
            task_hash: vec![],
            state_acc: 0,
        }
    }

    fn fault(&mut self, k: &str) {
        *self.faults.entry(k.to_string()).or_insert(0) += 1;
    }

    fn ensure_stepper(&mut self, ti: usize, exec: u8) {
        if self.tasks[ti].stepper.is_some() || self.tasks[ti].dead {
            return;
        }
        let t = &self.tasks[ti];
        let inc = t.incs.last().unwrap();
        let mut scopes: Vec<(Pos, Pos)> = vec![];
        if inc.resumed {
            // a replacement worker is scoped to the checkpoint only
            scopes.push((inc.from, inc.to));
        } else {
            scopes.extend(t.spec.pre.iter().cloned());
            if let Some(sc) = t.spec.scope {
                scopes.push(sc);
            }
        }
        if scopes.len() > 1 {
            *self.faults.entry("rescope".to_string()).or_insert(0) += 1;
        }
        let flop = self.scens[t.spec.scen].scen.flop;
        let ranges = self.scens[t.spec.scen].ranges.clone();
        let r = self
            .pool
            .call(exec, move || Stepper::new(&flop, &ranges, &scopes));
        match r {
            Ok(s) => self.tasks[ti].stepper = Some(s),
            Err(m) => {
                let t = &mut self.tasks[ti];
                t.incs
                    .last_mut()
                    .unwrap()
                    .outs
                    .push(Out::Panic(format!("construct: {m}")));
                let n = t.incs.last().unwrap().outs.len();
                t.incs.last_mut().unwrap().durable = n;
                t.dead = true;
            }
        }
    }

    fn one_next(&mut self, ti: usize, exec: u8) -> bool {
        self.ensure_stepper(ti, exec);
        if self.tasks[ti].dead {
            return false;
        }
        let mut st = self.tasks[ti].stepper.take().unwrap();
        let retain = self.retain;
        let (st, out, kept) = self.pool.call(exec, move || {
            if retain {
                match st.step_raw() {
                    Ok(Some(sd)) => {
                        let o = digest(&sd, &st.dm);
                        (st, o, Some(sd))
                    }
                    Ok(None) => (st, Out::End, None),
                    Err(m) => (st, Out::Panic(m), None),
                }
            } else {
                let o = st.step();
                (st, o, None)
            }
        });
        if let (Some(sd), Out::Yield { h, .. }) = (kept, &out) {
            self.retained.push((ti, *h, sd));
        }
        self.next_calls += 1;
        let t = &mut self.tasks[ti];
        t.stepper = Some(st);
        if t.last_exec != exec && t.last_exec != INLINE {
            t.migrations += 1;
            *self.faults.entry("migrate".to_string()).or_insert(0) += 1;
        }
        t.last_exec = exec;
        let inc = t.incs.last_mut().unwrap();
        if !inc.threads.contains(&exec) {
            inc.threads.push(exec);
        }
        out.fold_into(&mut self.log);
        let was_ended = t.ended;
        match &out {
            Out::Yield { .. } => {}
            Out::End => {
                if was_ended {
                    t.polls_after_end += 1;
                    *self.faults.entry("poll_after_end".to_string()).or_insert(0) += 1;
                }
                t.ended = true;
            }
            Out::Panic(_) => {
                t.dead = true;
            }
        }
        if was_ended && !matches!(out, Out::End) {
            // a poll after exhaustion produced something: keep it, oracles decide
            t.polls_after_end += 1;
            *self.faults.entry("poll_after_end".to_string()).or_insert(0) += 1;
        }
        inc.outs.push(out);
        inc.durable = inc.outs.len();
        // a finished evaluator (no polls left) is dropped where it last ran — on
        // another thread than the one that created it, when executors are in play
        if !t.runnable() && !t.dead {
            if let Some(st) = t.stepper.take() {
                self.pool.call(exec, move || drop(st));
            }
        }
        true
    }

    /// Apply one step. Steps that make no sense in the current state (task
    /// finished, nothing to crash) are skipped, which keeps shrinking simple.
    pub fn apply(&mut self, s: Step) -> bool {
        let ti = s.task as usize;
        if ti >= self.tasks.len() {
            return false;
        }
        self.log.add(0xA11);
        self.log.add(s.task as u64);
        self.log.add(s.exec as u64);
        self.log.add(s.op as u64);
        let did = match s.op {
            Op::Next => {
                if !self.tasks[ti].runnable() {
                    false
                } else {
                    self.one_next(ti, s.exec)
                }
            }
            Op::Drain => {
                let mut any = false;
                let mut n = 0u64;
                while self.tasks[ti].runnable() && n < self.drain_cap {
                    if !self.one_next(ti, s.exec) {
                        break;
                    }
                    any = true;
                    n += 1;
                }
                if n >= self.drain_cap {
                    self.tasks[ti].anomaly = Some(format!("drain cap {} hit", self.drain_cap));
                    self.tasks[ti].dead = true;
                }
                any
            }
            Op::CrashResume => {
                if !self.tasks[ti].can_crash() {
                    false
                } else {
                    let t = &mut self.tasks[ti];
                    let inc = t.incs.last_mut().unwrap();
                    // last yielded position: everything strictly before it is complete
                    let last = inc.outs.iter().rev().find_map(|o| match o {
                        Out::Yield { t, r, .. } => Some((*t, *r)),
                        _ => None,
                    });
                    let (resume, durable) = match last {
                        None => (inc.from, 0),
                        Some(p) => {
                            let d = inc
                                .outs
                                .iter()
                                .take_while(|o| match o {
                                    Out::Yield { t, r, .. } => (*t, *r) < p,
                                    _ => false,
                                })
                                .count();
                            (p, d)
                        }
                    };
                    if !is_board_pos(resume) || resume > inc.to {
                        // the evaluator yielded a board outside any position we could
                        // resume from; leave the task alone (oracles see the outputs)
                        false
                    } else {
                        inc.durable = durable;
                        inc.crashed = true;
                        let to = inc.to;
                        t.stepper = None; // drop = crash
                        t.incs.push(Incarnation {
                            from: resume,
                            to,
                            outs: vec![],
                            durable: 0,
                            crashed: false,
                            resumed: true,
                            threads: vec![],
                        });
                        t.last_exec = INLINE;
                        self.fault("crash_resume");
                        true
                    }
                }
            }
            Op::Restart => {
                if !self.tasks[ti].can_crash() {
                    false
                } else {
                    let t = &mut self.tasks[ti];
                    let inc = t.incs.last_mut().unwrap();
                    inc.durable = 0;
                    inc.crashed = true;
                    let (from, to, resumed) = (inc.from, inc.to, inc.resumed);
                    t.stepper = None;
                    t.incs.push(Incarnation {
                        from,
                        to,
                        outs: vec![],
                        durable: 0,
                        crashed: false,
                        resumed,
                        threads: vec![],
                    });
                    t.last_exec = INLINE;
                    self.fault("crash_restart");
                    true
                }
            }
        };
        if did {
            self.steps_done += 1;
            self.trace.push(s);
        }
        if did && self.track_states {
            // global-state fingerprint, maintained incrementally: XOR over tasks of
            // hash(task, incarnations, outs so far, last out)
            let t = &self.tasks[ti];
            let mut f = Fold::new();
            f.add(ti as u64);
            f.add(t.incs.len() as u64);
            let inc = t.incs.last().unwrap();
            f.add(inc.outs.len() as u64);
            if let Some(o) = inc.outs.last() {
                o.fold_into(&mut f);
            }
            let h = f.get();
            if self.task_hash.len() != self.tasks.len() {
                self.task_hash = vec![0; self.tasks.len()];
            }
            self.state_acc ^= self.task_hash[ti] ^ h;
            self.task_hash[ti] = h;
            if self.state_hashes.len() < 200_000 {
                self.state_hashes.insert(self.state_acc);
            }
        }
        did
    }

    /// Digest every retained showdown again, on another thread than the scheduler's
    /// when executors exist. Returns the first one whose digest changed since it
    /// was yielded: (task, index among retained, digest then, digest now).
    pub fn recheck_retained(&mut self) -> Option<(usize, usize, u64, u64)> {
        let kept = std::mem::take(&mut self.retained);
        let flops: Vec<[u8; 3]> = self.tasks.iter().map(|t| self.scens[t.spec.scen].scen.flop).collect();
        let exec = if self.pool.len() > 0 { 0 } else { INLINE };
        self.pool.call(exec, move || {
            let shared = std::sync::Arc::new(kept);
            for (i, (ti, h, sd)) in shared.iter().enumerate() {
                let dm = DeckMap::new(&flops[*ti]);
                if let Out::Yield { h: now, .. } = digest(sd, &dm) {
                    if now != *h {
                        return Some((*ti, i, *h, now));
                    }
                }
            }
            None
        })
    }

    pub fn any_runnable(&self) -> bool {
        self.tasks.iter().any(|t| t.runnable())
    }

    pub fn run_all(&mut self, steps: &[Step]) {
        for s in steps {
            self.apply(*s);
        }
    }

    /// Finish whatever is still runnable, in task order, inline (used after an
    /// explicit trace so that every task reaches its end before oracles run).
    pub fn finish_all(&mut self) {
        for ti in 0..self.tasks.len() {
            if self.tasks[ti].runnable() {
                self.apply(Step {
                    task: ti as u16,
                    exec: INLINE,
                    op: Op::Drain,
                });
            }
        }
    }

    pub fn trace_hash(&self) -> u64 {
        let mut f = Fold::new();
        for s in &self.trace {
            f.add(s.task as u64);
            f.add(s.exec as u64);
            f.add(s.op as u64);
        }
        f.get()
    }
}

// ------------------------------------------------------------------ scheduler

#[derive(Clone, Copy, Debug, PartialEq, Eq)]
pub enum Policy {
    Uniform,
    Pct,
    RoundRobin,
    RunToCompletion,
    Bursts,
    /// task 0 advances one step, then the other tasks advance exactly G steps
    /// between them, G drawn around powers of two (254..257, 511, 512, ...):
    /// for state that is keyed by a wrapping counter or generation stamp
    Gaps,
}

pub const POLICIES: [Policy; 5] = [
    Policy::Uniform,
    Policy::Pct,
    Policy::RoundRobin,
    Policy::RunToCompletion,
    Policy::Bursts,
];

#[derive(Clone, Debug)]
pub struct SchedCfg {
    pub policy: Policy,
    /// per-step probability (per mille) of each fault kind, when enabled
    pub crash_resume_pm: u64,
    pub restart_pm: u64,
    pub max_crashes: u64,
    pub migrate: bool,
    pub max_steps: u64,
}

/// Drive the world with a seeded scheduler until nothing is runnable (or the
/// step cap). Every choice comes from `rng`; the applied steps are recorded in
/// `world.trace`.
pub fn schedule(world: &mut World, rng: &mut Rng, cfg: &SchedCfg) {
    let n = world.tasks.len();
    if n == 0 {
        return;
    }
    let k = world.pool.len();
    let mut prio: Vec<u64> = (0..n as u64).collect();
    rng.shuffle(&mut prio);
    let mut order: Vec<usize> = (0..n).collect();
    rng.shuffle(&mut order);
    let mut change_points: Vec<u64> = vec![];
    if cfg.policy == Policy::Pct {
        for _ in 0..rng.range(1, 6) {
            change_points.push(rng.below(cfg.max_steps.min(4000).max(1)));
        }
    }
    let mut rr = 0usize;
    let mut gap_left = 0u64;
    let mut burst_task: Option<usize> = None;
    let mut burst_left = 0u64;
    let mut crashes = 0u64;
    let mut pinned: Vec<u8> = (0..n)
        .map(|_| if k == 0 { INLINE } else { rng.below(k as u64) as u8 })
        .collect();
    let mut starved_max = 0u64;
    let mut last_run: Vec<u64> = vec![0; n];
    let mut runnable: Vec<usize> = (0..n).filter(|i| world.tasks[*i].runnable()).collect();
    let mut attempts = 0u64;
    while !runnable.is_empty() && world.steps_done < cfg.max_steps && attempts < cfg.max_steps * 2 {
        attempts += 1;
        let ti = match cfg.policy {
            Policy::Gaps => {
                if gap_left == 0 || runnable.iter().all(|i| *i == 0) {
                    // the victim's turn (or only it is left)
                    gap_left = *rng.pick(&[1u64, 2, 15, 16, 63, 64, 127, 128, 254, 255, 255, 256, 256, 257, 511, 512, 767, 1023, 1024]);
                    if runnable.contains(&0) { 0 } else { *runnable.iter().find(|i| **i != 0).unwrap() }
                } else {
                    gap_left -= 1;
                    let others: Vec<usize> = runnable.iter().cloned().filter(|i| *i != 0).collect();
                    rr += 1;
                    others[rr % others.len()]
                }
            }
            Policy::Uniform => *rng.pick(&runnable),
            Policy::Pct => {
                if change_points.contains(&world.steps_done) {
                    // demote the currently highest runnable task
                    let cur = *runnable.iter().max_by_key(|i| prio[**i]).unwrap();
                    prio[cur] = 0;
                    for (j, p) in prio.iter_mut().enumerate() {
                        if j != cur {
                            *p += 1;
                        }
                    }
                }
                *runnable.iter().max_by_key(|i| prio[**i]).unwrap()
            }
            Policy::RoundRobin => {
                let mut c = rr % n;
                while !world.tasks[c].runnable() {
                    c = (c + 1) % n;
                }
                rr = c + 1;
                c
            }
            Policy::RunToCompletion => *order.iter().find(|i| world.tasks[**i].runnable()).unwrap(),
            Policy::Bursts => {
                if burst_left == 0 || burst_task.map(|b| !world.tasks[b].runnable()).unwrap_or(true) {
                    burst_task = Some(*rng.pick(&runnable));
                    burst_left = rng.range(1, 40);
                }
                burst_left -= 1;
                burst_task.unwrap()
            }
        };
        let gap = world.steps_done - last_run[ti];
        if gap > starved_max {
            starved_max = gap;
        }
        last_run[ti] = world.steps_done;
        let exec = if k == 0 {
            INLINE
        } else if cfg.migrate && rng.chance(1, 3) {
            pinned[ti] = rng.below(k as u64) as u8;
            pinned[ti]
        } else {
            pinned[ti]
        };
        let mut op = Op::Next;
        if crashes < cfg.max_crashes && world.tasks[ti].can_crash() {
            let x = rng.below(1000);
            if x < cfg.crash_resume_pm {
                op = Op::CrashResume;
            } else if x < cfg.crash_resume_pm + cfg.restart_pm {
                op = Op::Restart;
            }
        }
        if op != Op::Next {
            crashes += 1;
        }
        world.apply(Step {
            task: ti as u16,
            exec,
            op,
        });
        if !world.tasks[ti].runnable() {
            runnable.retain(|x| *x != ti);
        }
    }
    if starved_max > 200 {
        *world.faults.entry("starve".to_string()).or_insert(0) += 1;
    }
}
