//! Driving the real evaluator one `next()` at a time and digesting what it yields.

use crate::cards::*;
use crate::rng::Fold;
use espada::card::Card;
use espada::evaluator::{FlopExhaustiveEvaluator, Showdown};
use espada::hand_range::HandRange;
use std::cell::{Cell, RefCell};
use std::panic::{catch_unwind, AssertUnwindSafe};

pub type EvalIter = <FlopExhaustiveEvaluator as IntoIterator>::IntoIter;

thread_local! {
    static CAPTURING: Cell<bool> = Cell::new(false);
    static LAST_PANIC: RefCell<Option<String>> = RefCell::new(None);
}

/// Install once per process: panics raised while a simulated call is in flight
/// are recorded (message + location) instead of printed; any other panic
/// (a harness bug) is printed as usual.
pub fn install_panic_hook() {
    let default = std::panic::take_hook();
    std::panic::set_hook(Box::new(move |info| {
        if CAPTURING.with(|c| c.get()) {
            let msg = if let Some(s) = info.payload().downcast_ref::<&str>() {
                s.to_string()
            } else if let Some(s) = info.payload().downcast_ref::<String>() {
                s.clone()
            } else {
                "<non-string panic>".to_string()
            };
            let loc = info
                .location()
                .map(|l| format!("{}:{}", l.file(), l.line()))
                .unwrap_or_default();
            LAST_PANIC.with(|p| *p.borrow_mut() = Some(format!("{msg} @ {loc}")));
        } else {
            default(info);
        }
    }));
}

/// Run `f` as a simulated call: a panic becomes `Err(message @ location)`.
pub fn guarded<T>(f: impl FnOnce() -> T) -> Result<T, String> {
    CAPTURING.with(|c| c.set(true));
    let r = catch_unwind(AssertUnwindSafe(f));
    CAPTURING.with(|c| c.set(false));
    match r {
        Ok(v) => Ok(v),
        Err(_) => Err(LAST_PANIC
            .with(|p| p.borrow_mut().take())
            .unwrap_or_else(|| "<panic>".to_string())),
    }
}

/// Strip the line number so two panics at the same site compare equal across
/// small source edits; used only for classifying, the full text is reported.
pub fn panic_class(msg: &str) -> String {
    let head = msg.split(" @ ").next().unwrap_or(msg);
    let head: String = head
        .chars()
        .map(|c| if c.is_ascii_digit() { '#' } else { c })
        .collect();
    head
}

#[derive(Clone, Debug, PartialEq, Eq)]
pub enum Out {
    /// turn/river deck indexes of the yielded board (255 if the card is not in
    /// the deck at all) and a 64-bit digest of the whole showdown
    Yield { t: u8, r: u8, h: u64 },
    End,
    Panic(String),
}

impl Out {
    pub fn short(&self) -> String {
        match self {
            Out::Yield { t, r, h } => format!("Y({t},{r})#{:016x}", h),
            Out::End => "None".to_string(),
            Out::Panic(m) => format!("PANIC[{m}]"),
        }
    }
    pub fn fold_into(&self, f: &mut Fold) {
        match self {
            Out::Yield { t, r, h } => {
                f.add(1);
                f.add(*t as u64);
                f.add(*r as u64);
                f.add(*h);
            }
            Out::End => f.add(2),
            Out::Panic(m) => {
                f.add(3);
                f.add_str(&panic_class(m));
            }
        }
    }
}

pub struct DeckMap {
    pub idx: [u8; 52],
}

impl DeckMap {
    pub fn new(flop: &[u8; 3]) -> DeckMap {
        let mut idx = [255u8; 52];
        for (i, c) in deck_for(flop).iter().enumerate() {
            idx[*c as usize] = i as u8;
        }
        DeckMap { idx }
    }
}

/// Digest of everything observable on a showdown.
pub fn digest(sd: &Showdown, dm: &DeckMap) -> Out {
    let b = sd.board();
    let mut f = Fold::new();
    for c in b.iter() {
        f.add(code(c) as u64);
    }
    f.add(sd.players().len() as u64);
    for p in sd.players() {
        let hc = p.hole_cards();
        f.add(code(&hc[0]) as u64);
        f.add(code(&hc[1]) as u64);
        f.add(p.hand().power_index() as u64);
        f.add(p.is_winner() as u64);
        for c in p.board().iter() {
            f.add(code(c) as u64);
        }
    }
    f.add(sd.winner_len() as u64);
    f.add(sd.probability().to_bits() as u64);
    Out::Yield {
        t: dm.idx[code(&b[3]) as usize],
        r: dm.idx[code(&b[4]) as usize],
        h: f.get(),
    }
}

pub fn describe(sd: &Showdown) -> String {
    let b = sd.board();
    let mut s = format!(
        "board={} ",
        b.iter().map(|c| card_str(code(c))).collect::<String>()
    );
    for p in sd.players() {
        let hc = p.hole_cards();
        s += &format!(
            "[{}{} pi={} win={}] ",
            card_str(code(&hc[0])),
            card_str(code(&hc[1])),
            p.hand().power_index(),
            p.is_winner()
        );
    }
    s += &format!("wl={} p={}", sd.winner_len(), sd.probability());
    s
}

/// One live evaluator iterator plus what is needed to digest its output.
pub struct Stepper {
    pub it: EvalIter,
    pub dm: DeckMap,
    pub dead: bool,
}

impl Stepper {
    /// `scopes`: every `scope()` call to make before `into_iter()`, in order
    /// (empty = unscoped). A panic during construction is returned as Err.
    pub fn new(
        flop: &[u8; 3],
        ranges: &Vec<HandRange>,
        scopes: &[(Pos, Pos)],
    ) -> Result<Stepper, String> {
        let board: [Option<Card>; 5] = [
            Some(card(flop[0])),
            Some(card(flop[1])),
            Some(card(flop[2])),
            None,
            None,
        ];
        let it = guarded(|| {
            let mut ev = FlopExhaustiveEvaluator::new(&board, ranges);
            for (f, t) in scopes {
                ev.scope(f.0, f.1, t.0, t.1);
            }
            ev.into_iter()
        })?;
        Ok(Stepper {
            it,
            dm: DeckMap::new(flop),
            dead: false,
        })
    }

    /// One `next()` call. After a panic the iterator is never called again.
    pub fn step(&mut self) -> Out {
        if self.dead {
            return Out::Panic("<dead>".to_string());
        }
        let it = &mut self.it;
        match guarded(|| it.next()) {
            Ok(Some(sd)) => digest(&sd, &self.dm),
            Ok(None) => Out::End,
            Err(m) => {
                self.dead = true;
                Out::Panic(m)
            }
        }
    }

    pub fn step_raw(&mut self) -> Result<Option<Showdown>, String> {
        if self.dead {
            return Err("<dead>".to_string());
        }
        let it = &mut self.it;
        let r = guarded(|| it.next());
        if r.is_err() {
            self.dead = true;
        }
        r
    }
}

/// Drain a fresh evaluator to its first `None` (or panic), bounded by `cap`
/// calls. Returns the outcomes including the final End/Panic; `Err` if the
/// cap was hit (caller decides what that means).
pub fn drain(
    flop: &[u8; 3],
    ranges: &Vec<HandRange>,
    scopes: &[(Pos, Pos)],
    cap: u64,
) -> (Vec<Out>, bool) {
    let mut v = vec![];
    let mut st = match Stepper::new(flop, ranges, scopes) {
        Ok(s) => s,
        Err(m) => return (vec![Out::Panic(format!("construct: {m}"))], true),
    };
    let mut calls = 0u64;
    loop {
        if calls >= cap {
            return (v, false);
        }
        calls += 1;
        let o = st.step();
        let stop = !matches!(o, Out::Yield { .. });
        v.push(o);
        if stop {
            return (v, true);
        }
    }
}
