//! C17 — range text is canonical: equal ranges print identically and runs are merged.
//!
//! Simulated system: HandRange as a keyed store whose contents are reached by
//! different operation histories on differently laid-out hash tables. The
//! nondeterminism under the simulator's control is the backing map's
//! iteration order: insertion order, stale overwrites, forced capacity
//! (size_hint seam), incremental growth, parse-vs-collect, clone, and the
//! per-map hasher seed (hook). Oracles: byte-identical text for equal ranges,
//! section order, maximal runs against a small reference model, leftover set.

use crate::cards::*;
use crate::rng::{run_seed, Fold, Rng};
use crate::scenario::*;
use crate::util::*;
use espada::hand_range::HandRange;
use serde_json::{json, Value};
use std::collections::{BTreeMap, BTreeSet};

type Content = BTreeMap<(u8, u8), u32>;

#[derive(Clone, Copy, Debug, PartialEq, Eq, PartialOrd, Ord)]
pub enum Kind {
    Pocket,
    Suited,
    Offsuit,
}

/// (kind, high rank index or 255 for pockets, first kicker idx, last kicker idx, weight bits)
type RunT = (Kind, u8, u8, u8, u32);

fn rp_combos(kind: Kind, h: u8, k: u8) -> Vec<(u8, u8)> {
    let mut v = vec![];
    match kind {
        Kind::Pocket => {
            for s1 in 0..4u8 {
                for s2 in (s1 + 1)..4u8 {
                    v.push((k * 4 + s1, k * 4 + s2));
                }
            }
        }
        Kind::Suited => {
            for s in 0..4u8 {
                v.push((h * 4 + s, k * 4 + s));
            }
        }
        Kind::Offsuit => {
            for s1 in 0..4u8 {
                for s2 in 0..4u8 {
                    if s1 != s2 {
                        v.push((h * 4 + s1, k * 4 + s2));
                    }
                }
            }
        }
    }
    v
}

/// Weight of a rank pair if it is complete with one weight (f32 equality, as
/// "equal weight" in the statement).
fn complete(c: &Content, kind: Kind, h: u8, k: u8) -> Option<f32> {
    let combos = rp_combos(kind, h, k);
    let w0 = f32::from_bits(*c.get(&combos[0])?);
    for cb in &combos[1..] {
        let w = f32::from_bits(*c.get(cb)?);
        if w != w0 {
            return None;
        }
    }
    Some(w0)
}

/// Reference model: maximal runs per row and the leftover combos.
fn reference(c: &Content) -> (Vec<RunT>, BTreeSet<(u8, u8)>) {
    let mut runs: Vec<RunT> = vec![];
    let mut covered: BTreeSet<(u8, u8)> = BTreeSet::new();
    let mut rows: Vec<(Kind, u8, Vec<u8>)> = vec![(Kind::Pocket, 255, (0..13).collect())];
    for h in 0..12u8 {
        rows.push((Kind::Suited, h, ((h + 1)..13).collect()));
        rows.push((Kind::Offsuit, h, ((h + 1)..13).collect()));
    }
    for (kind, h, ks) in rows {
        let mut cur: Option<(u8, u8, f32)> = None;
        for &k in &ks {
            let w = complete(c, kind, h, k);
            if let Some(w) = w {
                for cb in rp_combos(kind, h, k) {
                    covered.insert(cb);
                }
            }
            match (cur, w) {
                (Some((a, _b, cw)), Some(w)) if cw == w => cur = Some((a, k, cw)),
                (Some((a, b, cw)), Some(w)) => {
                    runs.push((kind, h, a, b, cw.to_bits()));
                    cur = Some((k, k, w));
                }
                (Some((a, b, cw)), None) => {
                    runs.push((kind, h, a, b, cw.to_bits()));
                    cur = None;
                }
                (None, Some(w)) => cur = Some((k, k, w)),
                (None, None) => {}
            }
        }
        if let Some((a, b, cw)) = cur {
            runs.push((kind, h, a, b, cw.to_bits()));
        }
    }
    let left: BTreeSet<(u8, u8)> = c.keys().filter(|k| !covered.contains(k)).cloned().collect();
    runs.sort();
    (runs, left)
}

// ------------------------------------------------------------------- tokenizer

#[derive(Clone, Debug, PartialEq)]
enum Tok {
    Run(RunT),
    Single(u8, u8, u32),
}

fn rank_idx(c: char) -> Option<u8> {
    RANK_CH.iter().position(|x| *x == c).map(|x| x as u8)
}
fn suit_idx(c: char) -> Option<u8> {
    SUIT_CH.iter().position(|x| *x == c).map(|x| x as u8)
}

/// Decode one emitted token by its meaning. Err = a shape the statement does not list.
fn decode_token(t: &str) -> Result<Tok, String> {
    let (body, w) = match t.split_once(':') {
        Some((b, w)) => (b, w.parse::<f32>().map_err(|_| format!("weight '{w}'"))?),
        None => (t, 1.0f32),
    };
    let wb = w.to_bits();
    let ch: Vec<char> = body.chars().collect();
    let rp = |s: &[char]| -> Option<(Kind, u8, u8)> {
        // "XX" | "XYs" | "XYo"
        if s.len() == 2 {
            let a = rank_idx(s[0])?;
            let b = rank_idx(s[1])?;
            if a == b {
                return Some((Kind::Pocket, 255, a));
            }
            return None;
        }
        if s.len() == 3 {
            let a = rank_idx(s[0])?;
            let b = rank_idx(s[1])?;
            if a == b {
                return None;
            }
            let (h, k) = (a.min(b), a.max(b));
            return match s[2] {
                's' => Some((Kind::Suited, h, k)),
                'o' => Some((Kind::Offsuit, h, k)),
                _ => None,
            };
        }
        None
    };
    // single combo "AsKh"
    if ch.len() == 4 {
        if let (Some(r1), Some(s1), Some(r2), Some(s2)) = (rank_idx(ch[0]), suit_idx(ch[1]), rank_idx(ch[2]), suit_idx(ch[3])) {
            let a = r1 * 4 + s1;
            let b = r2 * 4 + s2;
            if a == b {
                return Err(format!("combo of one card twice '{body}'"));
            }
            return Ok(Tok::Single(a.min(b), a.max(b), wb));
        }
    }
    if let Some(stripped) = body.strip_suffix('+') {
        let s: Vec<char> = stripped.chars().collect();
        if let Some((kind, h, k)) = rp(&s) {
            let top = if kind == Kind::Pocket { 0 } else { h + 1 };
            return Ok(Tok::Run((kind, h, top, k, wb)));
        }
        return Err(format!("shape '{body}'"));
    }
    if let Some((l, r)) = body.split_once('-') {
        let ls: Vec<char> = l.chars().collect();
        let rs: Vec<char> = r.chars().collect();
        if let (Some((k1, h1, a)), Some((k2, h2, b))) = (rp(&ls), rp(&rs)) {
            if k1 == k2 && h1 == h2 {
                return Ok(Tok::Run((k1, h1, a.min(b), a.max(b), wb)));
            }
        }
        return Err(format!("shape '{body}'"));
    }
    if let Some((kind, h, k)) = rp(&ch) {
        return Ok(Tok::Run((kind, h, k, k, wb)));
    }
    Err(format!("shape '{body}'"))
}

/// Oracles 2-4 on one text against the contents it was printed from.
fn check_text(text: &str, c: &Content) -> Option<(String, String)> {
    let mut toks: Vec<Tok> = vec![];
    if !text.is_empty() {
        for t in text.split(',') {
            match decode_token(t) {
                Ok(x) => toks.push(x),
                Err(e) => return Some(("token_shape".into(), format!("token '{t}' is none of X+, X-Y, a rank pair or a combo ({e})"))),
            }
        }
    }
    // 2. section order
    let sec = |t: &Tok| match t {
        Tok::Run((Kind::Pocket, ..)) => 0,
        Tok::Run(_) => 1,
        Tok::Single(..) => 2,
    };
    for i in 1..toks.len() {
        if sec(&toks[i]) < sec(&toks[i - 1]) {
            return Some((
                "section_order".into(),
                format!("token #{i} of '{}' belongs to an earlier section than the token before it", abbreviate(text)),
            ));
        }
    }
    let pockets: Vec<&RunT> = toks.iter().filter_map(|t| match t { Tok::Run(r) if r.0 == Kind::Pocket => Some(r), _ => None }).collect();
    for i in 1..pockets.len() {
        if pockets[i].2 <= pockets[i - 1].2 {
            return Some(("pocket_order".into(), format!("pocket tokens are not from aces down in '{}'", abbreviate(text))));
        }
    }
    // one high card's tokens contiguous, suited before offsuit
    let rows: Vec<(u8, Kind)> = toks.iter().filter_map(|t| match t { Tok::Run(r) if r.0 != Kind::Pocket => Some((r.1, r.0)), _ => None }).collect();
    let mut seen_high: Vec<u8> = vec![];
    for i in 0..rows.len() {
        let (h, kind) = rows[i];
        if i > 0 && rows[i - 1].0 == h {
            if rows[i - 1].1 == Kind::Offsuit && kind == Kind::Suited {
                return Some(("suited_before_offsuit".into(), format!("high card {}: an offsuit token precedes a suited one in '{}'", RANK_CH[h as usize], abbreviate(text))));
            }
        } else {
            if seen_high.contains(&h) {
                return Some(("high_card_contiguous".into(), format!("tokens of high card {} are not contiguous in '{}'", RANK_CH[h as usize], abbreviate(text))));
            }
            seen_high.push(h);
        }
    }
    // 3. maximal runs
    let (want_runs, want_left) = reference(c);
    let mut got_runs: Vec<RunT> = toks.iter().filter_map(|t| match t { Tok::Run(r) => Some(*r), _ => None }).collect();
    got_runs.sort();
    if got_runs != want_runs {
        let show = |r: &RunT| {
            let name = |k: u8| match r.0 {
                Kind::Pocket => format!("{0}{0}", RANK_CH[k as usize]),
                Kind::Suited => format!("{}{}s", RANK_CH[r.1 as usize], RANK_CH[k as usize]),
                Kind::Offsuit => format!("{}{}o", RANK_CH[r.1 as usize], RANK_CH[k as usize]),
            };
            format!("{}..{}:{}", name(r.2), name(r.3), f32::from_bits(r.4))
        };
        let extra: Vec<String> = got_runs.iter().filter(|r| !want_runs.contains(r)).take(3).map(show).collect();
        let missing: Vec<String> = want_runs.iter().filter(|r| !got_runs.contains(r)).take(3).map(show).collect();
        return Some((
            "maximal_runs".into(),
            format!(
                "'{}': emitted rank-pair tokens decode to runs [{}] that are not maximal runs of the contents; maximal runs without a token: [{}]",
                abbreviate(text),
                extra.join(", "),
                missing.join(", ")
            ),
        ));
    }
    // 4. leftover set
    let got_left: BTreeSet<(u8, u8)> = toks.iter().filter_map(|t| match t { Tok::Single(a, b, _) => Some((*a, *b)), _ => None }).collect();
    if got_left != want_left {
        let extra: Vec<String> = got_left.difference(&want_left).take(3).map(|c| combo_str(c.0, c.1)).collect();
        let missing: Vec<String> = want_left.difference(&got_left).take(3).map(|c| combo_str(c.0, c.1)).collect();
        return Some((
            "leftover_set".into(),
            format!("'{}': single combos emitted but not leftover [{}]; leftover but not emitted [{}]", abbreviate(text), extra.join(","), missing.join(",")),
        ));
    }
    None
}

fn abbreviate(s: &str) -> String {
    if s.len() > 160 {
        format!("{}…({} chars)", &s[..160], s.len())
    } else {
        s.to_string()
    }
}

// --------------------------------------------------------------------- a case

#[derive(Clone, Debug)]
pub struct Case {
    pub histories: Vec<RangeRecipe>,
    /// injected writer faults: before history `at` is printed, history `which`
    /// is formatted into a writer that fails after `limit` bytes
    pub writer_faults: Vec<(usize, usize, usize)>,
}

/// A `fmt::Write` sink that returns an error once `limit` bytes were accepted
/// (a full buffer / closed pipe in the middle of Display).
struct BoundedWriter {
    left: usize,
    written: usize,
}
impl std::fmt::Write for BoundedWriter {
    fn write_str(&mut self, s: &str) -> std::fmt::Result {
        if s.len() > self.left {
            self.written += self.left;
            self.left = 0;
            return Err(std::fmt::Error);
        }
        self.left -= s.len();
        self.written += s.len();
        Ok(())
    }
}

/// A sink that, on its first write_str, formats another range to a String
/// (Display re-entered from inside Display) and then just collects the text.
struct ReentrantWriter<'a> {
    out: String,
    other: &'a HandRange,
    done: bool,
}
impl std::fmt::Write for ReentrantWriter<'_> {
    fn write_str(&mut self, s: &str) -> std::fmt::Result {
        if !self.done {
            self.done = true;
            let _ = self.other.to_string();
        }
        self.out.push_str(s);
        Ok(())
    }
}

impl Case {
    pub fn to_json(&self) -> Value {
        json!({"kind":"c17", "histories": self.histories.iter().map(|h| h.to_json()).collect::<Vec<_>>(),
            "writer_faults": self.writer_faults.iter().map(|(a,w,l)| vec![*a,*w,*l]).collect::<Vec<_>>()})
    }
    pub fn from_json(v: &Value) -> Result<Case, String> {
        let mut hs = vec![];
        for h in v["histories"].as_array().ok_or("histories")? {
            hs.push(RangeRecipe::from_json(h)?);
        }
        let mut wf = vec![];
        if let Some(a) = v["writer_faults"].as_array() {
            for x in a {
                if let Some(t) = x.as_array() {
                    if t.len() == 3 {
                        wf.push((t[0].as_u64().unwrap_or(0) as usize, t[1].as_u64().unwrap_or(0) as usize, t[2].as_u64().unwrap_or(0) as usize));
                    }
                }
            }
        }
        Ok(Case { histories: hs, writer_faults: wf })
    }
}

fn contents_of(r: &HandRange) -> Content {
    r.card_pairs().iter().map(|(cp, w)| (pair_codes(cp), w.to_bits())).collect()
}

fn order_fingerprint(r: &HandRange) -> u64 {
    let mut f = Fold::new();
    for (cp, _) in r.card_pairs().iter() {
        let (a, b) = pair_codes(cp);
        f.add(a as u64 * 64 + b as u64);
    }
    f.get()
}

pub struct CaseResult {
    pub key: Option<(String, String)>,
    pub orders: usize,
    pub compared_pairs: u64,
    pub unequal_histories: u64,
    pub texts: Vec<String>,
    pub content_hash: u64,
    pub content_len: usize,
    pub order_fps: Vec<u64>,
    pub writer_errors_fired: u64,
}

pub fn check_case(case: &Case) -> CaseResult {
    let built: Vec<HandRange> = case.histories.iter().map(|h| h.build()).collect();
    let mut writer_errors_fired = 0u64;
    let mut repeat_problem: Option<String> = None;
    let mut texts: Vec<Result<String, String>> = vec![];
    for (i, r) in built.iter().enumerate() {
        for (at, which, limit) in &case.writer_faults {
            if *at == i && *which < built.len() {
                use std::fmt::Write;
                let victim = &built[*which];
                let mut w = BoundedWriter { left: *limit, written: 0 };
                match crate::evalrun::guarded(|| write!(w, "{}", victim)) {
                    Ok(Err(_)) => writer_errors_fired += 1,
                    Ok(Ok(())) => {}
                    Err(m) => {
                        texts.push(Err(format!("while the writer was failing: {m}")));
                    }
                }
            }
        }
        if texts.len() > i {
            continue;
        }
        let first = crate::evalrun::guarded(|| r.to_string());
        // the same object formatted again, and once through a sink that formats
        // *another* range from inside its write_str (re-entrant Display): all three
        // texts of one object must be the same
        if let Ok(t1) = &first {
            let again = crate::evalrun::guarded(|| r.to_string());
            let other = &built[(i + 1) % built.len()];
            let nested = crate::evalrun::guarded(|| {
                use std::fmt::Write;
                let mut w = ReentrantWriter { out: String::new(), other, done: false };
                let _ = write!(w, "{}", r);
                w.out
            });
            for (what, t) in [("formatted a second time", &again), ("formatted through a writer that formats another range inside write_str", &nested)] {
                match t {
                    Ok(t2) if t2 == t1 => {}
                    Ok(t2) => {
                        repeat_problem = repeat_problem.or(Some(format!("history #{i} {}: the same range object {what} gives '{}' instead of '{}'", recipe_short(&case.histories[i]), abbreviate(t2), abbreviate(t1))));
                    }
                    Err(m) => {
                        repeat_problem = repeat_problem.or(Some(format!("history #{i}: {what} panicked: {m}")));
                    }
                }
            }
        }
        texts.push(first);
    }
    let fps: Vec<u64> = built.iter().map(order_fingerprint).collect();
    let distinct_orders: BTreeSet<u64> = fps.iter().cloned().collect();
    let c0 = built.first().map(contents_of).unwrap_or_default();
    let mut ch = Fold::new();
    for ((a, b), w) in &c0 {
        ch.add(*a as u64);
        ch.add(*b as u64);
        ch.add(*w as u64);
    }
    let mut res = CaseResult {
        key: None,
        orders: distinct_orders.len(),
        compared_pairs: 0,
        unequal_histories: 0,
        texts: vec![],
        content_hash: ch.get(),
        content_len: c0.len(),
        order_fps: fps,
        writer_errors_fired,
    };
    for (i, t) in texts.iter().enumerate() {
        if let Err(m) = t {
            res.key = Some(("display_panic".into(), format!("to_string() of history #{i} panicked: {m}")));
            return res;
        }
    }
    let texts: Vec<String> = texts.into_iter().map(|t| t.unwrap()).collect();
    // the same *place* holding another range afterwards (mem::swap, re-assignment of a
    // slot): the text follows the contents, not the address
    if repeat_problem.is_none() {
        let mut built2: Vec<HandRange> = built.clone();
        let n = built2.len();
        for i in 0..n {
            let j = (i + 1) % n;
            if i == j {
                continue;
            }
            let r = crate::evalrun::guarded(|| {
                let _ = built2[i].to_string();
                built2.swap(i, j);
                let a = built2[i].to_string();
                let mut slot = built2[j].clone();
                let _ = slot.to_string();
                slot = built2[i].clone();
                let b = slot.to_string();
                built2.swap(i, j);
                (a, b)
            });
            match r {
                Ok((a, b)) => {
                    if a != texts[j] || b != texts[j] {
                        repeat_problem = Some(format!(
                            "after history #{i} was formatted, the range of history #{j} moved into its place (mem::swap / slot re-assignment) prints '{}' / '{}' instead of '{}'",
                            abbreviate(&a), abbreviate(&b), abbreviate(&texts[j])
                        ));
                        break;
                    }
                }
                Err(m) => {
                    repeat_problem = Some(format!("formatting after a swap panicked: {m}"));
                    break;
                }
            }
        }
    }
    if let Some(d) = repeat_problem {
        res.key = Some(("same_object_formats_differently".into(), d));
        res.texts = texts;
        return res;
    }
    // 1. canonical text for equal ranges
    for i in 0..built.len() {
        for j in (i + 1)..built.len() {
            if built[i] == built[j] {
                res.compared_pairs += 1;
                if texts[i] != texts[j] {
                    let mut k = 0;
                    let (a, b) = (texts[i].as_bytes(), texts[j].as_bytes());
                    while k < a.len() && k < b.len() && a[k] == b[k] {
                        k += 1;
                    }
                    res.key = Some((
                        "canonical_text".into(),
                        format!(
                            "two equal ranges ({} combos; histories #{i} {} and #{j} {}) print differently from byte {k}: '{}' vs '{}'",
                            c0.len(),
                            recipe_short(&case.histories[i]),
                            recipe_short(&case.histories[j]),
                            abbreviate(&texts[i][k.saturating_sub(12)..]),
                            abbreviate(&texts[j][k.saturating_sub(12)..]),
                        ),
                    ));
                    res.texts = texts;
                    return res;
                }
            } else {
                res.unequal_histories += 1;
            }
        }
    }
    // 2-4 on each distinct text with the contents of the range it came from
    let mut seen: BTreeSet<(&str, Vec<((u8, u8), u32)>)> = BTreeSet::new();
    for (i, t) in texts.iter().enumerate() {
        let c = contents_of(&built[i]);
        // the same text for the same contents needs checking once; the same text
        // for *different* contents (a stale text) must be checked against its own
        if !seen.insert((t.as_str(), c.iter().map(|(k, v)| (*k, *v)).collect())) {
            continue;
        }
        if let Some((k, d)) = check_text(t, &c) {
            res.key = Some((k, format!("history #{i} {}: {d}", recipe_short(&case.histories[i]))));
            break;
        }
    }
    res.texts = texts;
    res
}

fn recipe_short(r: &RangeRecipe) -> String {
    format!(
        "[{:?}{}{}{}{}]",
        r.how,
        r.hint.map(|h| format!(" hint={h}")).unwrap_or_default(),
        if r.hash_seed != 0 { format!(" hash_seed={:x}", r.hash_seed) } else { String::new() },
        if r.clones > 0 { format!(" clones={}", r.clones) } else { String::new() },
        if r.how == How::Parse { format!(" text='{}'", abbreviate(r.text.as_deref().unwrap_or(""))) } else { format!(" {} inserts", r.entries.len()) },
    )
}

// ------------------------------------------------------------------ generators

fn gen_w(rng: &mut Rng) -> u32 {
    gen_weight(rng)
}

fn gen_content(rng: &mut Rng, big: bool) -> Content {
    let mut c: Content = BTreeMap::new();
    // structured extremes: everything, all of one kind, whole rows
    match rng.below(40) {
        0 => {
            let w = gen_w(rng);
            for cb in all_combos() {
                c.insert(cb, w);
            }
        }
        1 => {
            let w = gen_w(rng);
            for k in 0..13u8 {
                for cb in rp_combos(Kind::Pocket, 255, k) {
                    c.insert(cb, w);
                }
            }
        }
        2 => {
            // every suited (or offsuit) rank pair, weights per row
            let kind = if rng.chance(1, 2) { Kind::Suited } else { Kind::Offsuit };
            for h in 0..12u8 {
                let w = if rng.chance(1, 2) { 1.0f32.to_bits() } else { gen_w(rng) };
                for k in (h + 1)..13 {
                    for cb in rp_combos(kind, h, k) {
                        c.insert(cb, w);
                    }
                }
            }
        }
        4 | 5 => {
            // exactly N leftover single combos (N around 256, 512, 768, 1024): at most
            // size-1 combos of every rank pair, so none is complete
            let n = *rng.pick(&[255usize, 256, 256, 257, 511, 512, 512, 513, 768, 1024]);
            let mut classes: Vec<(Kind, u8, u8)> = vec![];
            for k in 0..13u8 {
                classes.push((Kind::Pocket, 255, k));
            }
            for h in 0..12u8 {
                for k in (h + 1)..13 {
                    classes.push((Kind::Suited, h, k));
                    classes.push((Kind::Offsuit, h, k));
                }
            }
            rng.shuffle(&mut classes);
            // a few complete rank pairs first (they are not leftovers)
            let ncomplete = rng.range(0, 4) as usize;
            let w = gen_w(rng);
            for (kind, h, k) in classes.iter().take(ncomplete) {
                for cb in rp_combos(*kind, *h, *k) {
                    c.insert(cb, w);
                }
            }
            let mut pool: Vec<(u8, u8)> = vec![];
            for (kind, h, k) in classes.iter().skip(ncomplete) {
                let mut combos = rp_combos(*kind, *h, *k);
                rng.shuffle(&mut combos);
                combos.pop(); // never the whole rank pair
                pool.extend(combos);
            }
            rng.shuffle(&mut pool);
            let w2 = gen_w(rng);
            for cb in pool.into_iter().take(n) {
                c.insert(cb, w2);
            }
            return c;
        }
        6 => {
            // more than sixteen distinct weights: every rank pair of a few rows its own
            for h in 0..rng.range(2, 5) as u8 {
                for k in (h + 1)..13 {
                    let w = ((1 + (h as u32 * 13 + k as u32) % 61) as f32 / 64.0).to_bits();
                    let kind = if (h + k) % 2 == 0 { Kind::Suited } else { Kind::Offsuit };
                    for cb in rp_combos(kind, h, k) {
                        c.insert(cb, w);
                    }
                }
            }
        }
        3 => {
            // alternating weights along a row: no two neighbours mergeable
            let kind = *rng.pick(&[Kind::Pocket, Kind::Suited, Kind::Offsuit]);
            let h = if kind == Kind::Pocket { 255 } else { rng.below(6) as u8 };
            let lo = if kind == Kind::Pocket { 0 } else { h + 1 };
            let (w1, w2) = (0.5f32.to_bits(), 0.25f32.to_bits());
            for k in lo..13 {
                for cb in rp_combos(kind, h, k) {
                    c.insert(cb, if k % 2 == 0 { w1 } else { w2 });
                }
            }
        }
        _ => {}
    }
    let pieces = if big { rng.range(4, 40) } else { rng.range(0, 8) };
    for _ in 0..pieces {
        match rng.below(10) {
            0..=4 => {
                // a run of complete rank pairs along a row
                let kind = *rng.pick(&[Kind::Pocket, Kind::Suited, Kind::Offsuit]);
                let h = if kind == Kind::Pocket { 255 } else { rng.below(12) as u8 };
                let (lo, hi) = if kind == Kind::Pocket { (0u8, 12u8) } else { (h + 1, 12u8) };
                let a = match rng.below(4) {
                    0 => lo, // touches the row top
                    _ => rng.range(lo as u64, hi as u64) as u8,
                };
                let b = match rng.below(4) {
                    0 => hi, // touches the deuce
                    1 => a,
                    _ => rng.range(a as u64, hi as u64) as u8,
                };
                let w = gen_w(rng);
                for k in a..=b {
                    for cb in rp_combos(kind, h, k) {
                        c.insert(cb, w);
                    }
                }
                // zero has two spellings: some combos of a weight-0 run get -0.0 (equal
                // weight, other bits) — which one a token shows must follow the contents
                if w == 0 && rng.chance(1, 2) {
                    for k in a..=b {
                        for cb in rp_combos(kind, h, k) {
                            if rng.chance(1, 2) {
                                c.insert(cb, 0x8000_0000);
                            }
                        }
                    }
                }
                // break the run with one different weight in the middle
                if b > a && rng.chance(1, 3) {
                    let k = rng.range(a as u64, b as u64) as u8;
                    let w2 = gen_w(rng);
                    for cb in rp_combos(kind, h, k) {
                        c.insert(cb, w2);
                    }
                }
            }
            5 | 6 => {
                // partially filled rank pair
                let kind = *rng.pick(&[Kind::Pocket, Kind::Suited, Kind::Offsuit]);
                let h = if kind == Kind::Pocket { 255 } else { rng.below(12) as u8 };
                let k = if kind == Kind::Pocket { rng.below(13) as u8 } else { rng.range(h as u64 + 1, 12) as u8 };
                let mut combos = rp_combos(kind, h, k);
                rng.shuffle(&mut combos);
                let w = gen_w(rng);
                if rng.chance(1, 3) {
                    // all present, weights equal except one that differs by one ulp
                    // (0.5 vs 0.50000006): not "equal weight", so not a rank-pair token
                    let base = if w == 0 { 0.5f32.to_bits() } else { w };
                    for cb in &combos {
                        c.insert(*cb, base);
                    }
                    let near = if f32::from_bits(base) >= 1.0 { base - 1 } else { base + 1 };
                    c.insert(combos[0], near);
                    if rng.chance(1, 2) {
                        c.insert(combos[combos.len() - 1], near);
                    }
                } else if rng.chance(1, 2) {
                    // all present, one with another weight
                    for cb in &combos {
                        c.insert(*cb, w);
                    }
                    let mut w2 = gen_w(rng);
                    if w2 == w {
                        w2 = if w == 0.5f32.to_bits() { 0.25f32.to_bits() } else { 0.5f32.to_bits() };
                    }
                    c.insert(combos[0], w2);
                } else {
                    let keep = rng.range(1, combos.len() as u64 - 1) as usize;
                    for cb in combos.iter().take(keep) {
                        c.insert(*cb, w);
                    }
                }
            }
            7 => {
                // remove one combo from somewhere (turn a complete pair into leftovers)
                if !c.is_empty() {
                    let keys: Vec<(u8, u8)> = c.keys().cloned().collect();
                    let k = *rng.pick(&keys);
                    c.remove(&k);
                }
            }
            _ => {
                let cb = random_combo(rng);
                c.insert(cb, gen_w(rng));
            }
        }
    }
    c
}

const HINTS: [usize; 14] = [0, 1, 3, 7, 14, 28, 56, 112, 224, 448, 896, 1792, 3584, 7168];

fn gen_history(rng: &mut Rng, c: &Content, seeds_on: bool) -> RangeRecipe {
    let mut list: Vec<(u8, u8, u32)> = c.iter().map(|((a, b), w)| (*a, *b, *w)).collect();
    rng.shuffle(&mut list);
    // stale duplicates that a later insert overwrites
    if !list.is_empty() && rng.chance(1, 3) {
        let n = rng.range(1, 1 + (list.len() as u64 / 4).min(12));
        for _ in 0..n {
            let idx = rng.usize_below(list.len());
            let (a, b, w) = list[idx];
            let mut w2 = gen_w(rng);
            if w2 == w {
                w2 = if w == 1.0f32.to_bits() { 0.5f32.to_bits() } else { 1.0f32.to_bits() };
            }
            let at = rng.usize_below(idx + 1);
            list.insert(at, (a, b, w2));
        }
    }
    let all_one = c.values().all(|w| *w == 1.0f32.to_bits());
    let how = match rng.below(8) {
        0 | 1 => How::NoHint,
        2 if all_one => How::Pairs,
        _ => How::Collect,
    };
    let mut entries = list;
    if how == How::Pairs {
        // FromIterator<CardPair> gives every insert weight 1: stale weights are irrelevant
        for e in entries.iter_mut() {
            e.2 = 1.0f32.to_bits();
        }
    }
    RangeRecipe {
        how: how.clone(),
        entries,
        hint: if how == How::Collect && rng.chance(1, 2) { Some(*rng.pick(&HINTS)) } else { None },
        hash_seed: if seeds_on && rng.chance(2, 3) { rng.next_u64() | 1 } else { 0 },
        text: None,
        clones: if rng.chance(1, 5) { rng.range(1, 2) as u8 } else { 0 },
    }
}

fn rp_name(kind: Kind, h: u8, k: u8) -> String {
    match kind {
        Kind::Pocket => format!("{0}{0}", RANK_CH[k as usize]),
        Kind::Suited => format!("{}{}s", RANK_CH[h as usize], RANK_CH[k as usize]),
        Kind::Offsuit => format!("{}{}o", RANK_CH[h as usize], RANK_CH[k as usize]),
    }
}

fn wsuffix(w: u32) -> String {
    let f = f32::from_bits(w);
    if f == 1.0 {
        String::new()
    } else {
        format!(":{}", f)
    }
}

/// A parse history: tokens (in the library's notation, written by the harness
/// from the reference decomposition) in shuffled order, optionally preceded by
/// stale overlapping tokens that later tokens overwrite completely.
fn gen_parse_history(rng: &mut Rng, c: &Content, seeds_on: bool) -> RangeRecipe {
    let (runs, left) = reference(c);
    let mut toks: Vec<String> = vec![];
    let mut stale: Vec<String> = vec![];
    for (kind, h, a, b, w) in &runs {
        // split the run at random points: the parser must still produce the same contents
        let mut start = *a;
        while start <= *b {
            let end = if rng.chance(1, 2) { *b } else { rng.range(start as u64, *b as u64) as u8 };
            let top = if *kind == Kind::Pocket { 0 } else { h + 1 };
            let t = if start == end {
                rp_name(*kind, *h, start)
            } else if start == top && rng.chance(2, 3) {
                format!("{}+", rp_name(*kind, *h, end))
            } else {
                format!("{}-{}", rp_name(*kind, *h, start), rp_name(*kind, *h, end))
            };
            toks.push(format!("{t}{}", wsuffix(*w)));
            if rng.chance(1, 6) {
                let k = rng.range(start as u64, end as u64) as u8;
                let w2 = if *w == 0.5f32.to_bits() { 0.75f32 } else { 0.5f32 };
                stale.push(format!("{}:{}", rp_name(*kind, *h, k), w2));
            }
            start = end + 1;
        }
    }
    for (a, b) in &left {
        let w = c[&(*a, *b)];
        // either card order is accepted by the parser
        let s = if rng.chance(1, 2) { combo_str(*a, *b) } else { combo_str(*b, *a) };
        toks.push(format!("{s}{}", wsuffix(w)));
        if rng.chance(1, 8) {
            stale.push(format!("{}:{}", combo_str(*a, *b), if w == 0.25f32.to_bits() { 0.5 } else { 0.25 }));
        }
    }
    rng.shuffle(&mut toks);
    rng.shuffle(&mut stale);
    stale.extend(toks);
    let sep = if rng.chance(1, 4) { ", " } else { "," };
    RangeRecipe {
        how: How::Parse,
        entries: vec![],
        hint: None,
        hash_seed: if seeds_on && rng.chance(2, 3) { rng.next_u64() | 1 } else { 0 },
        text: Some(stale.join(sep)),
        clones: 0,
    }
}

fn gen_case(seed: u64, seeds_on: bool, thorough: bool) -> Case {
    let mut rng = Rng::new(seed);
    let big = rng.chance(1, if thorough { 6 } else { 12 });
    let c = gen_content(&mut rng, big);
    let nh = rng.range(4, 12) as usize;
    let mut hs = vec![];
    for i in 0..nh {
        if i > 0 && rng.chance(1, 5) {
            hs.push(gen_parse_history(&mut rng, &c, seeds_on));
        } else {
            hs.push(gen_history(&mut rng, &c, seeds_on));
        }
    }
    // history 0 is always shipped behaviour: plain collect, seed 0
    hs[0].hash_seed = 0;
    // decoys: other ranges over the *same combos* with different weights, printed
    // in between (interleaving of to_string() calls across ranges on one thread):
    // the text of a range must not depend on what was formatted before it
    if !c.is_empty() && rng.chance(1, 2) {
        let nd = rng.range(1, 3);
        for _ in 0..nd {
            let mut d = c.clone();
            match rng.below(3) {
                0 => {
                    let w = gen_w(&mut rng);
                    for v in d.values_mut() {
                        *v = w;
                    }
                }
                1 => {
                    let keys: Vec<(u8, u8)> = d.keys().cloned().collect();
                    let k = *rng.pick(&keys);
                    let w = d[&k];
                    d.insert(k, if w == 0.5f32.to_bits() { 0.25f32.to_bits() } else { 0.5f32.to_bits() });
                }
                _ => {
                    // swap two weight classes
                    let w1 = gen_w(&mut rng);
                    let w2 = gen_w(&mut rng);
                    for v in d.values_mut() {
                        *v = if *v == w1 { w2 } else { w1 };
                    }
                }
            }
            // a decoy that equals the contents as f32 values but not bit for bit (0.0 vs
            // -0.0) would be an 'equal range' whose text legitimately shows the other zero
            let f32_equal = d.len() == c.len() && d.iter().all(|(k, v)| c.get(k).map(|w| f32::from_bits(*w) == f32::from_bits(*v)).unwrap_or(false));
            if f32_equal && d != c {
                continue;
            }
            let h = if rng.chance(1, 4) { gen_parse_history(&mut rng, &d, seeds_on) } else { gen_history(&mut rng, &d, seeds_on) };
            let at = rng.range(1, hs.len() as u64) as usize;
            hs.insert(at, h);
        }
    }
    let mut wf = vec![];
    if seeds_on && rng.chance(1, 3) {
        for _ in 0..rng.range(1, 3) {
            let at = rng.usize_below(hs.len());
            let which = rng.usize_below(hs.len());
            let limit = match rng.below(4) {
                0 => 0,
                1 => rng.range(1, 6) as usize,
                _ => rng.range(1, 60) as usize,
            };
            wf.push((at, which, limit));
        }
    }
    Case { histories: hs, writer_faults: wf }
}

fn minimise(case: &Case, pred: &dyn Fn(&Value) -> bool) -> (Case, usize) {
    let mut best = case.clone();
    let mut tried = 0usize;
    let fails = |c: &Case, tried: &mut usize| -> bool {
        if *tried >= 300 {
            return false;
        }
        *tried += 1;
        pred(&c.to_json())
    };
    // fewest histories
    let mut progress = true;
    while progress {
        progress = false;
        let mut i = 0;
        while i < best.histories.len() && best.histories.len() > 1 {
            let mut c = best.clone();
            c.histories.remove(i);
            c.writer_faults = c
                .writer_faults
                .iter()
                .filter(|(_, w, _)| *w != i)
                .map(|(a, w, l)| (if *a > i { a - 1 } else { *a }, if *w > i { w - 1 } else { *w }, *l))
                .collect();
            if fails(&c, &mut tried) {
                best = c;
                progress = true;
                continue;
            }
            i += 1;
        }
        // remove the same combo from every collect-style history (shrinks the contents)
        let keys: BTreeSet<(u8, u8)> = best.histories.iter().flat_map(|h| h.entries.iter().map(|e| (e.0, e.1))).collect();
        let all_collect = best.histories.iter().all(|h| h.how != How::Parse);
        if all_collect {
            // by halves first
            let mut ks: Vec<(u8, u8)> = keys.iter().cloned().collect();
            while ks.len() > 1 {
                let half: BTreeSet<(u8, u8)> = ks[..ks.len() / 2].iter().cloned().collect();
                let mut c = best.clone();
                for h in c.histories.iter_mut() {
                    h.entries.retain(|e| !half.contains(&(e.0, e.1)));
                }
                if fails(&c, &mut tried) {
                    best = c;
                    progress = true;
                    ks = ks[ks.len() / 2..].to_vec();
                } else {
                    let other: BTreeSet<(u8, u8)> = ks[ks.len() / 2..].iter().cloned().collect();
                    let mut c = best.clone();
                    for h in c.histories.iter_mut() {
                        h.entries.retain(|e| !other.contains(&(e.0, e.1)));
                    }
                    if fails(&c, &mut tried) {
                        best = c;
                        progress = true;
                        ks = ks[..ks.len() / 2].to_vec();
                    } else {
                        break;
                    }
                }
            }
            let keys: Vec<(u8, u8)> = best.histories.iter().flat_map(|h| h.entries.iter().map(|e| (e.0, e.1))).collect::<BTreeSet<_>>().into_iter().collect();
            if keys.len() <= 80 {
                for k in keys {
                    let mut c = best.clone();
                    for h in c.histories.iter_mut() {
                        h.entries.retain(|e| (e.0, e.1) != k);
                    }
                    if fails(&c, &mut tried) {
                        best = c;
                        progress = true;
                    }
                }
            }
        }
        // drop writer faults
        let mut f = 0;
        while f < best.writer_faults.len() {
            let mut c = best.clone();
            c.writer_faults.remove(f);
            if fails(&c, &mut tried) {
                best = c;
                progress = true;
                continue;
            }
            f += 1;
        }
        // simplify recipes
        for i in 0..best.histories.len() {
            let h = &best.histories[i];
            if h.how == How::Parse {
                continue;
            }
            if h.hint.is_some() || h.clones > 0 || h.how != How::Collect {
                let mut c = best.clone();
                c.histories[i].hint = None;
                c.histories[i].clones = 0;
                if c.histories[i].how == How::NoHint {
                    c.histories[i].how = How::Collect;
                }
                if fails(&c, &mut tried) {
                    best = c;
                    progress = true;
                }
            }
            if best.histories[i].hash_seed != 0 {
                let mut c = best.clone();
                c.histories[i].hash_seed = 0;
                if fails(&c, &mut tried) {
                    best = c;
                    progress = true;
                }
            }
        }
        if tried >= 300 {
            break;
        }
    }
    (best, tried)
}

fn case_key(okey: &str, c: &Case) -> String {
    let mut f = Fold::new();
    f.add_str(&c.to_json().to_string());
    format!("{okey}:{:08x}", f.get() as u32)
}

/// One case = one content group (4-12 histories + decoys + writer faults).
pub fn case(batch: &str, tier: &str, i: u64) -> CaseOut {
    let vs = verif_seed();
    let seeds_on = batch == "seeded-hasher";
    let seed = run_seed(vs, "C17", batch, i);
    let case = gen_case(seed, seeds_on, !tier.starts_with("quick"));
    let r = check_case(&case);
    let mut out = CaseOut { index: i, seed, ..Default::default() };
    out.evals = case.histories.len() as u64;
    out.steps = case.histories.len() as u64;
    let mut lf = Fold::new();
    lf.add(r.content_hash);
    for t in &r.texts {
        lf.add_str(t);
    }
    out.log = lf.get();
    if r.content_len >= 2 {
        for fp in &r.order_fps {
            out.distinct.push(crate::rng::mix(r.content_hash, *fp));
        }
    }
    let mut probe = |k: &str, n: u64| *out.probes.entry(k.to_string()).or_insert(0) += n;
    probe("content_groups", 1);
    probe("equal_pairs_compared", r.compared_pairs);
    probe("history_pairs_not_equal_so_not_compared", r.unequal_histories);
    probe("max_distinct_iteration_orders_for_one_content", 0);
    if r.orders >= 2 {
        probe("contents_reached_with_2plus_iteration_orders", 1);
    }
    if r.orders >= 5 {
        probe("contents_reached_with_5plus_iteration_orders", 1);
    }
    let mut fault = |k: &str, n: u64| *out.faults.entry(k.to_string()).or_insert(0) += n;
    if r.unequal_histories > 0 {
        fault("interleaved_display_of_other_range_same_combos", 1);
    }
    fault("display_writer_error_midway", r.writer_errors_fired);
    for h in &case.histories {
        match h.how {
            How::Parse => fault("history_parse", 1),
            How::NoHint => fault("history_incremental_growth", 1),
            How::Pairs => fault("history_from_card_pairs", 1),
            How::Collect => fault("history_collect", 1),
        }
        if h.hint.is_some() {
            fault("forced_capacity", 1);
        }
        if h.hash_seed != 0 {
            fault("hash_perturb", 1);
        }
        if h.clones > 0 {
            fault("history_clone", 1);
        }
        if h.entries.len() > h.distinct_len() {
            fault("stale_overwrites", 1);
        }
    }
    if let Some(t) = r.texts.first() {
        let mut probe = |k: &str, n: u64| *out.probes.entry(k.to_string()).or_insert(0) += n;
        if t.contains('+') {
            probe("texts_with_plus_token", 1);
        }
        if t.contains('-') {
            probe("texts_with_closed_range_token", 1);
        }
        if t.is_empty() {
            probe("empty_range_text", 1);
        }
        if r.orders >= 3 && t.len() > 10 && t.len() < 200 {
            out.sample = Some(json!({"text": t, "combos": r.content_len, "histories": case.histories.iter().map(recipe_short).collect::<Vec<_>>(), "distinct_iteration_orders": r.orders, "writer_faults": case.writer_faults.len()}));
        }
    }
    out.extra = json!({"orders": r.orders});
    if let Some((okey, detail)) = r.key {
        out.violation = Some((okey, detail, case.to_json()));
    }
    out
}

pub fn eval(v: &Value) -> Option<(String, String)> {
    let case = Case::from_json(v).ok()?;
    check_case(&case).key
}

pub fn run(tier: &str) -> i32 {
    let quick = tier == "quick";
    let mut ev = Evidence::new("C17", tier, "exploration");
    ev.rule = "one evaluation = one construction history (a HandRange built along one insertion order / overwrite pattern / capacity / growth mode / parse text / clone depth / hasher seed and printed); histories are grouped 4-12 per target contents, with decoy ranges and writer faults in between. distinct_nontrivial = distinct (contents, backing-map iteration order) pairs over contents of >= 2 combos, measured from the real map's iteration order".into();
    ev.assumptions = vec![
        "domain: combos of two distinct cards, weights in [0,1] on exact f32 values, no NaN (with NaN the premise 'equal ranges' is false)".into(),
        "only ranges that compare == under the library's own PartialEq are required to print identically".into(),
        "order among high cards and among kickers is not demanded beyond identical text; the spelling chosen for a run is free (tokens are decoded by meaning); multiplicity of leftover combos is not checked (the shipped formatter prints leftover pocket combos twice, pinned by an existing test)".into(),
        "hasher seed != 0 exists only under cfg(espada_verif); seed 0 is bit-for-bit the shipped FxBuildHasher and every group contains a seed-0 history".into(),
        "cases run in child processes, a deterministic chunk of case indexes per process, each case on a fresh thread".into(),
    ];
    let mut logfold = Fold::new();
    let mut orders_per_content_max = 0u64;
    let chunk: u64 = if quick { 16 } else { 256 };
    for (batch, n) in [
        ("shipped-hasher", if quick { 1500u64 } else { 120_000 }),
        ("seeded-hasher", if quick { 3500 } else { 600_000 }),
    ] {
        let chunks = run_batch("C17", batch, n, chunk, tier, false);
        for (ci, ch) in chunks.iter().enumerate() {
            let chunk_first = ci as u64 * chunk;
            if let Some((i, how)) = &ch.died {
                ev.violations.push(Violation {
                    property: "C17".into(),
                    oracle: "process_died".into(),
                    key: format!("process_died:history:{batch}:{chunk_first}..={i}"),
                    detail: format!("the process formatting ranges ended with {how} at case {i} of batch '{batch}'"),
                    seed: verif_seed(),
                    replay: json!({"kind":"chunk","batch":batch,"first":chunk_first,"upto":i,"tier":tier,"expected_oracle":"process_died"}),
                });
            }
            for c in &ch.cases {
                ev.merge_case(c);
                logfold.add(c.log);
                orders_per_content_max = orders_per_content_max.max(c.extra["orders"].as_u64().unwrap_or(0));
                if let Some(sm) = &c.sample {
                    if ev.samples.len() < 10 {
                        ev.sample(sm.clone());
                    }
                }
                if c.violation.is_some() {
                    if ev.violations.len() < 5 {
                        let min_fn = |replay: &Value, _okey: &str, pred: &dyn Fn(&Value) -> bool| -> (Value, usize) {
                            match Case::from_json(replay) {
                                Ok(cs) => {
                                    let (m, t) = minimise(&cs, pred);
                                    (m.to_json(), t)
                                }
                                Err(_) => (replay.clone(), 0),
                            }
                        };
                        let key_fn = |okey: &str, min: &Value| -> String {
                            Case::from_json(min).map(|cs| case_key(okey, &cs)).unwrap_or_else(|_| okey.to_string())
                        };
                        ev.violations.push(settle_violation("C17", batch, tier, false, chunk_first, c, &min_fn, &key_fn));
                    } else {
                        ev.probe("further_violations_not_minimised", 1);
                    }
                }
            }
        }
    }
    // a reduced batch by the dev-profile binary (overflow checks, debug assertions)
    {
        let n_dev: u64 = if quick { 300 } else { 8000 };
        let tdev = format!("{tier}/dev");
        let chunks = run_batch("C17", "seeded-hasher", n_dev, chunk, &tdev, true);
        for (ci, ch) in chunks.iter().enumerate() {
            let chunk_first = ci as u64 * chunk;
            if let Some((i, how)) = &ch.died {
                ev.violations.push(Violation {
                    property: "C17".into(),
                    oracle: "process_died".into(),
                    key: format!("dev:process_died:history:seeded-hasher:{chunk_first}..={i}"),
                    detail: format!("[dev profile] the process formatting ranges ended with {how} at case {i}"),
                    seed: verif_seed(),
                    replay: json!({"kind":"chunk","batch":"seeded-hasher","first":chunk_first,"upto":i,"tier":tdev,"profile":"dev","expected_oracle":"process_died"}),
                });
            }
            for c in &ch.cases {
                ev.merge_case(c);
                ev.fault("profile_dev", c.evals);
                logfold.add(c.log);
                if c.violation.is_some() && ev.violations.len() < 5 {
                    let min_fn = |replay: &Value, _okey: &str, pred: &dyn Fn(&Value) -> bool| -> (Value, usize) {
                        match Case::from_json(replay) {
                            Ok(cs) => {
                                let (m, t) = minimise(&cs, pred);
                                (m.to_json(), t)
                            }
                            Err(_) => (replay.clone(), 0),
                        }
                    };
                    let key_fn = |okey: &str, min: &Value| -> String {
                        format!("dev:{}", Case::from_json(min).map(|cs| case_key(okey, &cs)).unwrap_or_else(|_| okey.to_string()))
                    };
                    let mut v = settle_violation("C17", "seeded-hasher", &tdev, true, chunk_first, c, &min_fn, &key_fn);
                    v.detail = format!("[dev profile] {}", v.detail);
                    ev.violations.push(v);
                }
            }
        }
    }
    ev.probes.remove("max_distinct_iteration_orders_for_one_content");
    ev.extra.insert("max_distinct_iteration_orders_for_one_content".into(), json!(orders_per_content_max));
    ev.extra.insert("event_log_digest".into(), json!(format!("{:016x}", logfold.get())));
    ev.extra.insert("components".into(), json!({
        "real": ["HandRange FromIterator/parse/clone/PartialEq/Display", "HandRangeToken parse+Display", "rank_pairs()/orphan_card_pairs()"],
        "stub": [],
        "simulated": ["insertion history", "table capacity via size_hint", "hasher seed (hook, cfg(espada_verif))", "order of Display calls across ranges", "failing fmt::Write sink"],
    }));
    ev.finish()
}

pub fn replay(v: &Value) -> Option<(String, String)> {
    let r = &v["replay"];
    if r["kind"].as_str() == Some("chunk") {
        return replay_chunk("C17", r);
    }
    let case = Case::from_json(r).ok()?;
    let dev = r["profile"].as_str() == Some("dev");
    // evaluated in a fresh process, like every case
    eval_in_child("C17", r, dev).map(|(k, d)| (format!("{}{}", if dev { "dev:" } else { "" }, case_key(&k, &case)), d))
}
