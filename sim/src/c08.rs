//! C08 — enumeration always terminates, in bounded stack, without panicking.
//!
//! Simulated system: the example's worker — a thread with a 2 MiB stack
//! draining one evaluator — inside a child process, in both build profiles
//! (dev: overflow checks + debug assertions; release: wrapping). The parent
//! observes exit status / signal, step budget and (only as a last resort) a
//! generous wall-clock watchdog.

use crate::cards::*;
use crate::evalrun::*;
use crate::rng::{run_seed, Fold, Rng};
use crate::scenario::*;
use crate::util::*;
use serde_json::{json, Value};
use std::collections::BTreeMap;
use std::io::{BufRead, BufReader, Write};
use std::process::{Command, Stdio};
use std::sync::mpsc::{channel, RecvTimeoutError};
use std::time::Duration;

pub const MIB2: usize = 2 * 1024 * 1024;

#[derive(Clone, Debug)]
pub struct Job {
    pub id: usize,
    pub class: String,
    pub scen: Scenario,
    pub scope: Option<(Pos, Pos)>,
    pub stack: usize,
    /// how the worker consumes the iterator: next | size_hint_next | collect |
    /// extend | count | fold | last | for_each | nth
    pub consumer: String,
    /// evaluators the same worker thread touches *before* the one it drains:
    /// (scenario, scope, number of next() calls before it is dropped)
    pub prelude: Vec<(Scenario, Option<(Pos, Pos)>, u32)>,
}

pub const CONSUMERS: [&str; 13] = ["next", "size_hint_next", "collect", "extend", "count", "fold", "last", "for_each", "nth", "count_by_value", "last_by_value", "fold_by_value", "collect_by_value"];
/// not drawn at random: the first 200 next() calls only, for enumerations far too
/// long to drain (a panic in a prefix is a panic of the whole)
pub const CONSUMER_PREFIX: &str = "first_200";

impl Job {
    pub fn to_json(&self) -> Value {
        json!({
            "id": self.id,
            "class": self.class,
            "scenario": self.scen.to_json(),
            "scope": self.scope.map(|(f,t)| vec![f.0,f.1,t.0,t.1]),
            "stack": self.stack,
            "consumer": self.consumer,
            "prelude": self.prelude.iter().map(|(sc, scope, k)| json!({"scenario": sc.to_json(), "scope": scope.map(|(f,t)| vec![f.0,f.1,t.0,t.1]), "take": k})).collect::<Vec<_>>(),
        })
    }
    pub fn from_json(v: &Value) -> Result<Job, String> {
        let scope = match v["scope"].as_array() {
            Some(a) if a.len() == 4 => {
                let g = |i: usize| a[i].as_u64().unwrap_or(0) as u8;
                Some(((g(0), g(1)), (g(2), g(3))))
            }
            _ => None,
        };
        Ok(Job {
            id: v["id"].as_u64().unwrap_or(0) as usize,
            class: v["class"].as_str().unwrap_or("").to_string(),
            scen: Scenario::from_json(&v["scenario"])?,
            scope,
            stack: v["stack"].as_u64().unwrap_or(MIB2 as u64) as usize,
            consumer: v["consumer"].as_str().unwrap_or("next").to_string(),
            prelude: v["prelude"]
                .as_array()
                .map(|a| {
                    a.iter()
                        .filter_map(|p| {
                            let sc = Scenario::from_json(&p["scenario"]).ok()?;
                            let scope = match p["scope"].as_array() {
                                Some(q) if q.len() == 4 => {
                                    let g = |i: usize| q[i].as_u64().unwrap_or(0) as u8;
                                    Some(((g(0), g(1)), (g(2), g(3))))
                                }
                                _ => None,
                            };
                            Some((sc, scope, p["take"].as_u64().unwrap_or(1) as u32))
                        })
                        .collect()
                })
                .unwrap_or_default(),
        })
    }
    pub fn positions(&self) -> u64 {
        match self.scope {
            Some((f, t)) => (pos_index(t) - pos_index(f)) as u64,
            None => NPOS as u64,
        }
    }
    /// Bounded liveness: every yield corresponds to at least one odometer
    /// state; factor 4 is slack so a terminating evaluator that yields
    /// duplicates (C02's business) is not reported here.
    pub fn call_budget(&self) -> u64 {
        self.scen.product().max(1).saturating_mul(self.positions().max(1)).saturating_mul(4).saturating_add(16)
    }
    pub fn has_empty_range(&self) -> bool {
        self.scen.players.iter().any(|p| p.distinct_len() == 0)
    }
    pub fn states(&self) -> u64 {
        self.scen.product().saturating_mul(self.positions())
    }
}

// ---------------------------------------------------------------------- child

/// `espada-sim c08-child`: jobs on stdin (one JSON per line), results on stdout.
pub fn child_main() -> i32 {
    let stdin = std::io::stdin();
    let mut out = std::io::stdout();
    for line in stdin.lock().lines() {
        let Ok(line) = line else { break };
        if line.trim().is_empty() {
            continue;
        }
        let v: Value = match serde_json::from_str(&line) {
            Ok(v) => v,
            Err(e) => {
                eprintln!("child: bad job: {e}");
                return 2;
            }
        };
        let job = match Job::from_json(&v) {
            Ok(j) => j,
            Err(e) => {
                eprintln!("child: bad job: {e}");
                return 2;
            }
        };
        let _ = writeln!(out, "START {}", job.id);
        let _ = out.flush();
        let budget = job.call_budget();
        let j2 = job.clone();
        // ranges are built on this (big) thread; only construction of the
        // evaluator and the drain loop run on the bounded worker stack, as in
        // the example
        let ranges = std::sync::Arc::new(job.scen.build_ranges());
        let h = std::thread::Builder::new()
            .name("worker".into())
            .stack_size(job.stack)
            .spawn(move || {
                // earlier evaluators on this very thread, abandoned part-way
                for (pi, (psc, pscope, take)) in j2.prelude.iter().enumerate() {
                    let pr = psc.build_ranges();
                    let pscopes: Vec<(Pos, Pos)> = pscope.iter().cloned().collect();
                    match Stepper::new(&psc.flop, &pr, &pscopes) {
                        Ok(mut p) => {
                            for _ in 0..*take {
                                match p.step_raw() {
                                    Ok(Some(_)) => {}
                                    Ok(None) => break,
                                    Err(m) => return (0u64, 0u64, format!("panic:prelude {pi}: {m}")),
                                }
                            }
                        }
                        Err(m) => return (0u64, 0u64, format!("panic:prelude {pi} construct: {m}")),
                    }
                }
                let scopes: Vec<(Pos, Pos)> = j2.scope.into_iter().collect();
                let mut st = match Stepper::new(&j2.scen.flop, &ranges, &scopes) {
                    Ok(s) => s,
                    Err(m) => return (0u64, 0u64, format!("panic:construct: {m}")),
                };
                let consumer = j2.consumer.clone();
                if consumer == CONSUMER_PREFIX {
                    let mut yields = 0u64;
                    for calls in 1..=200u64 {
                        match st.step_raw() {
                            Ok(Some(_)) => yields += 1,
                            Ok(None) => return (yields, calls, "end".to_string()),
                            Err(m) => return (yields, calls, format!("panic:{m}")),
                        }
                    }
                    return (u64::MAX, 200, "end".to_string());
                }
                if consumer == "next" || consumer == "size_hint_next" {
                    let mut yields = 0u64;
                    let mut calls = 0u64;
                    loop {
                        if calls >= budget {
                            return (yields, calls, "budget".to_string());
                        }
                        calls += 1;
                        if consumer == "size_hint_next" {
                            let it = &st.it;
                            if let Err(m) = guarded(|| it.size_hint()) {
                                return (yields, calls, format!("panic:{m}"));
                            }
                        }
                        match st.step_raw() {
                            Ok(Some(_)) => yields += 1,
                            Ok(None) => return (yields, calls, "end".to_string()),
                            Err(m) => return (yields, calls, format!("panic:{m}")),
                        }
                    }
                }
                if consumer.ends_with("_by_value") {
                    // the iterator's own by-value methods (overrides included); unbounded,
                    // the parent's watchdog is the only limit
                    let it = st.it;
                    let c2 = consumer.clone();
                    let r = guarded(move || -> u64 {
                        match c2.as_str() {
                            "count_by_value" => it.count() as u64,
                            "last_by_value" => {
                                let _ = it.last();
                                u64::MAX
                            }
                            "fold_by_value" => it.fold(0u64, |a, _| a + 1),
                            _ => {
                                let v: Vec<espada::evaluator::Showdown> = it.collect();
                                v.len() as u64
                            }
                        }
                    });
                    return match r {
                        Ok(n) => (n, if n == u64::MAX { 0 } else { n }, "end".to_string()),
                        Err(m) => (0, 0, format!("panic:{m}")),
                    };
                }
                // the std consumers, bounded by take(budget) so a runaway iterator still ends
                let cap = budget.min(usize::MAX as u64) as usize;
                let it = &mut st.it;
                let r = guarded(|| -> (u64, bool) {
                    match consumer.as_str() {
                        "collect" => {
                            let v: Vec<espada::evaluator::Showdown> = it.by_ref().take(cap).collect();
                            (v.len() as u64, v.len() < cap)
                        }
                        "extend" => {
                            let mut v: Vec<espada::evaluator::Showdown> = Vec::new();
                            v.extend(it.by_ref().take(cap));
                            (v.len() as u64, v.len() < cap)
                        }
                        "count" => {
                            let n = it.by_ref().take(cap).count();
                            (n as u64, n < cap)
                        }
                        "fold" => {
                            let n = it.by_ref().take(cap).fold(0u64, |a, s| a + 1 + (s.winner_len() as u64 & 0));
                            (n, (n as usize) < cap)
                        }
                        "last" => {
                            let mut n = 0u64;
                            let _ = it.by_ref().take(cap).inspect(|_| n += 1).last();
                            (n, (n as usize) < cap)
                        }
                        "for_each" => {
                            let mut n = 0u64;
                            it.by_ref().take(cap).for_each(|_| n += 1);
                            (n, (n as usize) < cap)
                        }
                        _ => {
                            // nth(k) repeatedly: skips through the enumeration in strides
                            let mut n = 0u64;
                            let mut guard = 0usize;
                            while guard < cap {
                                guard += 7;
                                match it.nth(6) {
                                    Some(_) => n += 7,
                                    None => return (n, true),
                                }
                            }
                            (n, false)
                        }
                    }
                });
                match r {
                    Ok((n, true)) => {
                        // drained: one more poll must still be None
                        match st.step_raw() {
                            Ok(None) => (if consumer == "nth" { u64::MAX } else { n }, n + 1, "end".to_string()),
                            Ok(Some(_)) => (n, n + 1, "budget".to_string()),
                            Err(m) => (n, n + 1, format!("panic:{m}")),
                        }
                    }
                    Ok((n, false)) => (n, n, "budget".to_string()),
                    Err(m) => (0, 0, format!("panic:{m}")),
                }
            });
        let res = match h {
            Ok(h) => h.join(),
            Err(e) => {
                eprintln!("child: cannot spawn worker: {e}");
                return 2;
            }
        };
        match res {
            Ok((y, c, o)) => {
                let _ = writeln!(out, "DONE {} {} {} {}", job.id, y, c, o.replace('\n', " "));
            }
            Err(_) => {
                // a panic that escaped the worker thread (join() is Err): unlike the
                // example we do not swallow it
                let _ = writeln!(out, "DONE {} 0 0 panic:escaped the worker thread", job.id);
            }
        }
        let _ = out.flush();
    }
    0
}

// --------------------------------------------------------------------- parent

#[derive(Clone, Debug)]
pub struct JobResult {
    pub id: usize,
    pub yields: u64,
    pub calls: u64,
    /// end | budget | panic:<msg> | signal:<n> | exit:<code> | hang
    pub outcome: String,
}

fn bin_for(profile: &str) -> String {
    let var = if profile == "dev" { "SIM_DEV" } else { "SIM_REL" };
    if let Ok(p) = std::env::var(var) {
        return p;
    }
    let exe = std::env::current_exe().expect("current_exe");
    let target = exe.parent().and_then(|p| p.parent()).expect("target dir");
    target
        .join(if profile == "dev" { "debug" } else { "release" })
        .join("espada-sim")
        .display()
        .to_string()
}

/// Run jobs in one child (restarting it after a death); per-job watchdog.
pub fn run_jobs(profile: &str, jobs: &[Job], watchdog: Duration) -> Result<Vec<JobResult>, String> {
    let mut results: Vec<JobResult> = vec![];
    let mut next = 0usize;
    let mut hangs = 0usize;
    let bin = bin_for(profile);
    while next < jobs.len() {
        if hangs >= 2 {
            // two runs of this shard already never returned: the rest is not worth a
            // watchdog period each (the hangs are reported; these are not judged)
            results.push(JobResult { id: jobs[next].id, yields: 0, calls: 0, outcome: "inconclusive_slow".to_string() });
            next += 1;
            continue;
        }
        let mut child = Command::new(&bin)
            .arg("c08-child")
            .stdin(Stdio::piped())
            .stdout(Stdio::piped())
            .stderr(Stdio::null())
            .spawn()
            .map_err(|e| format!("cannot start {bin}: {e}"))?;
        {
            let mut sin = child.stdin.take().unwrap();
            for j in &jobs[next..] {
                let _ = writeln!(sin, "{}", j.to_json());
            }
            // dropping stdin closes it: the child exits after the last job
        }
        let stdout = child.stdout.take().unwrap();
        let (tx, rx) = channel::<String>();
        let reader = std::thread::spawn(move || {
            for l in BufReader::new(stdout).lines() {
                match l {
                    Ok(l) => {
                        if tx.send(l).is_err() {
                            break;
                        }
                    }
                    Err(_) => break,
                }
            }
        });
        let mut current: Option<usize> = None;
        let mut hung = false;
        loop {
            // the prefix-only jobs rest on a premise about entry order that a legitimate
            // change may break (then their first calls are an astronomically long blocked
            // run): a short limit, and exceeding it is inconclusive, never a verdict
            let soft = jobs.get(next).map(|j| j.consumer == CONSUMER_PREFIX).unwrap_or(false);
            let limit = if soft { Duration::from_secs(20).min(watchdog) } else { watchdog };
            match rx.recv_timeout(limit) {
                Ok(l) => {
                    let parts: Vec<&str> = l.splitn(5, ' ').collect();
                    if parts[0] == "START" && parts.len() >= 2 {
                        current = parts[1].parse().ok();
                    } else if parts[0] == "DONE" && parts.len() >= 5 {
                        results.push(JobResult {
                            id: parts[1].parse().unwrap_or(usize::MAX),
                            yields: parts[2].parse().unwrap_or(0),
                            calls: parts[3].parse().unwrap_or(0),
                            outcome: parts[4].to_string(),
                        });
                        current = None;
                        next += 1;
                    }
                }
                Err(RecvTimeoutError::Timeout) => {
                    hung = true;
                    let _ = child.kill();
                    break;
                }
                Err(RecvTimeoutError::Disconnected) => break,
            }
        }
        let status = child.wait().map_err(|e| e.to_string())?;
        let _ = reader.join();
        if next >= jobs.len() {
            break;
        }
        // the child ended with jobs left: the one in flight is the casualty
        let soft = jobs.get(next).map(|j| j.consumer == CONSUMER_PREFIX).unwrap_or(false);
        let outcome = if hung && soft {
            "inconclusive_slow".to_string()
        } else if hung {
            hangs += 1;
            "hang".to_string()
        } else {
            #[cfg(unix)]
            {
                use std::os::unix::process::ExitStatusExt;
                if let Some(sig) = status.signal() {
                    format!("signal:{sig}")
                } else {
                    format!("exit:{}", status.code().unwrap_or(-1))
                }
            }
            #[cfg(not(unix))]
            {
                format!("exit:{}", status.code().unwrap_or(-1))
            }
        };
        if current.is_none() && !hung && status.code() == Some(2) {
            return Err(format!("child {bin} reported a harness error"));
        }
        results.push(JobResult {
            id: jobs[next].id,
            yields: 0,
            calls: 0,
            outcome,
        });
        next += 1;
    }
    Ok(results)
}

/// The C08 oracles on one job result. None = held.
pub fn judge(job: &Job, r: &JobResult) -> Option<(String, String)> {
    let o = r.outcome.as_str();
    if o == "end" {
        if job.has_empty_range() && r.yields != 0 && r.yields != u64::MAX {
            return Some((
                "empty_range_not_empty".into(),
                format!("a player has an empty range but {} showdowns were yielded", r.yields),
            ));
        }
        return None;
    }
    if o == "inconclusive_slow" {
        return None;
    }
    if o == "budget" {
        return Some((
            "no_termination".into(),
            format!(
                "no None within {} next() calls (budget 16 + 4 x {} states)",
                r.calls,
                job.states()
            ),
        ));
    }
    if o == "hang" {
        return Some(("hang".into(), "a next() call did not return before the wall-clock watchdog".into()));
    }
    if let Some(m) = o.strip_prefix("panic:") {
        return Some((format!("panic:{}", panic_class(m)), format!("panicked: {m}")));
    }
    if let Some(s) = o.strip_prefix("signal:") {
        let name = match s {
            "6" => "SIGABRT (Rust's stack-overflow handler aborts)",
            "11" => "SIGSEGV",
            _ => "signal",
        };
        return Some((format!("died:signal{s}"), format!("worker process killed by {name} with a {} KiB worker stack", job.stack / 1024)));
    }
    Some((format!("died:{o}"), format!("worker process ended with {o}")))
}

// ------------------------------------------------------------------ generators

fn w1() -> u32 {
    1.0f32.to_bits()
}

fn wide_range(rng: &mut Rng, k: usize, avoid: &[u8]) -> Vec<(u8, u8, u32)> {
    // k distinct combos, preferring ones that do not contain `avoid` cards
    let mut all = all_combos();
    rng.shuffle(&mut all);
    all.sort_by_key(|(a, b)| (avoid.contains(a) || avoid.contains(b)) as u8);
    all.truncate(k);
    rng.shuffle(&mut all);
    all.into_iter().map(|(a, b)| (a, b, w1())).collect()
}

fn sized_range(rng: &mut Rng, k: usize) -> Vec<(u8, u8, u32)> {
    let mut all = all_combos();
    rng.shuffle(&mut all);
    all.truncate(k);
    all.into_iter()
        .map(|(a, b)| (a, b, if rng.chance(1, 4) { gen_weight(rng) } else { w1() }))
        .collect()
}

fn low_flop(rng: &mut Rng) -> [u8; 3] {
    loop {
        let f = [rng.range(24, 51) as u8, rng.range(24, 51) as u8, rng.range(24, 51) as u8];
        if f[0] != f[1] && f[0] != f[2] && f[1] != f[2] {
            return f;
        }
    }
}

/// Scope that keeps `states` under `max_states`, starting at `from_row`.
fn bounded_scope(product: u64, max_states: u64, from: Pos) -> Option<(Pos, Pos)> {
    let maxpos = (max_states / product.max(1)).max(1) as usize;
    let fi = pos_index(from);
    let ti = (fi + maxpos).min(NPOS);
    if fi == 0 && ti == NPOS {
        None
    } else {
        Some((from, pos_from_index(ti)))
    }
}

pub fn gen_jobs(vs: u64, tier: &str, profile: &str) -> Vec<Job> {
    let quick = tier == "quick";
    let max_states: u64 = match (profile, quick) {
        ("dev", true) => 120_000,
        ("dev", false) => 400_000,
        (_, true) => 2_000_000,
        (_, false) => 8_000_000,
    };
    let mut rng = Rng::new(run_seed(vs, "C08", profile, 0));
    let mut jobs: Vec<Job> = vec![];
    let mut push = |class: &str, scen: Scenario, scope: Option<(Pos, Pos)>, jobs: &mut Vec<Job>| {
        let id = jobs.len();
        jobs.push(Job { id, class: class.to_string(), scen, scope, stack: MIB2, consumer: "next".to_string(), prelude: vec![] });
    };
    // (i) long blocked runs: a narrow range on the first deck cards beside a wide one
    for &k in &[50usize, 100, 255, 256, 400, 1326] {
        for narrow in [vec![(0u8, 1u8, w1())], vec![(0, 4, w1()), (1, 5, w1())]] {
            let flop = low_flop(&mut rng);
            let wide = wide_range(&mut rng, k, &[0, 1, 4, 5]);
            let first = rng.chance(1, 2);
            let players = if first {
                vec![RangeRecipe::simple(narrow.clone()), RangeRecipe::simple(wide)]
            } else {
                vec![RangeRecipe::simple(wide), RangeRecipe::simple(narrow.clone())]
            };
            let scen = Scenario { flop, players };
            let sc = bounded_scope(scen.product(), max_states, FIRST);
            push("blocked_run_narrow_beside_wide", scen, sc, &mut jobs);
        }
    }
    // identical single combos for two players: every deal blocked, whole line
    for _ in 0..2 {
        let c = random_combo(&mut rng);
        let flop = loop {
            let f = gen_flop(&mut rng);
            if !f.contains(&c.0) && !f.contains(&c.1) {
                break f;
            }
        };
        let scen = Scenario {
            flop,
            players: vec![RangeRecipe::simple(vec![(c.0, c.1, w1())]), RangeRecipe::simple(vec![(c.0, c.1, w1())])],
        };
        push("all_deals_blocked_same_combo", scen, None, &mut jobs);
    }
    // ranges made of flop cards: every deal rejected by Showdown::new
    for &k in &[1usize, 40, 300] {
        let flop = gen_flop(&mut rng);
        let mut entries = vec![];
        for c in 0..52u8 {
            if entries.len() >= k {
                break;
            }
            for &fc in flop.iter() {
                if c != fc && entries.len() < k && !entries.iter().any(|e: &(u8, u8, u32)| (e.0, e.1) == (c.min(fc), c.max(fc))) {
                    entries.push((c.min(fc), c.max(fc), w1()));
                }
            }
        }
        let scen = Scenario { flop, players: vec![RangeRecipe::simple(entries), RangeRecipe::simple(sized_range(&mut rng, 3))] };
        let sc = bounded_scope(scen.product(), max_states, FIRST);
        push("all_deals_rejected_flop_cards", scen, sc, &mut jobs);
    }
    // 3-6 players blocking each other
    for np in 3..=6usize {
        let flop = gen_flop(&mut rng);
        let shared = gen_combos(&mut rng, 3, true);
        let players: Vec<RangeRecipe> = (0..np)
            .map(|_| {
                let mut e: Vec<(u8, u8, u32)> = shared.iter().take(rng.range(1, 3) as usize).map(|c| (c.0, c.1, w1())).collect();
                if rng.chance(1, 2) {
                    let c = random_combo(&mut rng);
                    if !e.iter().any(|x| (x.0, x.1) == c) {
                        e.push((c.0, c.1, w1()));
                    }
                }
                RangeRecipe::simple(e)
            })
            .collect();
        let scen = Scenario { flop, players };
        let sc = bounded_scope(scen.product(), max_states, FIRST);
        push("many_players_mutual_blocking", scen, sc, &mut jobs);
    }
    // (ii) range sizes per player slot
    let sizes: Vec<usize> = if quick {
        vec![0, 1, 2, 254, 255, 256, 257, 511, 512, 1326]
    } else {
        vec![0, 1, 2, 3, 127, 128, 129, 254, 255, 256, 257, 258, 300, 511, 512, 513, 767, 768, 1000, 1325, 1326]
    };
    for &k in &sizes {
        for nplayers in 1..=3usize {
            for slot in 0..nplayers {
                if !quick || (slot == 0 || slot == nplayers - 1) {
                    let flop = gen_flop(&mut rng);
                    let players: Vec<RangeRecipe> = (0..nplayers)
                        .map(|i| {
                            if i == slot {
                                RangeRecipe::simple(sized_range(&mut rng, k))
                            } else {
                                let k2 = rng_small(&mut rng);
                                RangeRecipe::simple(sized_range(&mut rng, k2))
                            }
                        })
                        .collect();
                    let scen = Scenario { flop, players };
                    let from = if rng.chance(1, 2) { FIRST } else { pos_from_index(rng.usize_below(NPOS - 1)) };
                    let sc = bounded_scope(scen.product(), max_states / 2, from);
                    push(&format!("range_size_{k}"), scen, sc, &mut jobs);
                }
            }
        }
    }
    // several big sizes at once
    for (a, b) in [(256usize, 257usize), (255, 256), (0, 1326), (512, 300), (1326, 2)] {
        let flop = gen_flop(&mut rng);
        let scen = Scenario {
            flop,
            players: vec![RangeRecipe::simple(sized_range(&mut rng, a)), RangeRecipe::simple(sized_range(&mut rng, b))],
        };
        let from = pos_from_index(rng.usize_below(NPOS - 1));
        let sc = bounded_scope(scen.product(), max_states, from);
        push("several_sizes_at_once", scen, sc, &mut jobs);
    }
    // (iii) empty player list
    push("empty_player_list", Scenario { flop: gen_flop(&mut rng), players: vec![] }, None, &mut jobs);
    // all players empty / one of many empty
    push(
        "all_ranges_empty",
        Scenario { flop: gen_flop(&mut rng), players: vec![RangeRecipe::simple(vec![]), RangeRecipe::simple(vec![])] },
        None,
        &mut jobs,
    );
    // parsed empty string range (HandRange::from_str("") path)
    {
        let mut r = RangeRecipe::simple(vec![]);
        r.how = How::Parse;
        r.text = Some(String::new());
        push(
            "empty_range_from_parse",
            Scenario { flop: gen_flop(&mut rng), players: vec![RangeRecipe::simple(sized_range(&mut rng, 4)), r] },
            None,
            &mut jobs,
        );
    }
    // (iv) random mixes
    let nrand = if quick { 40 } else { 2500 };
    for _ in 0..nrand {
        let scen = gen_scenario(
            &mut rng,
            &ScenParams { max_players: 5, max_product: 400, allow_zero_players: true, hash_seeds: true },
        );
        let from = if rng.chance(1, 2) { FIRST } else { pos_from_index(rng.usize_below(NPOS - 1)) };
        let sc = if rng.chance(1, 3) { bounded_scope(scen.product(), max_states, from) } else { bounded_scope(scen.product(), max_states, FIRST) };
        push("random_mix", scen, sc, &mut jobs);
    }
    // 7..=22 players with one or two combos each on disjoint cards (deals do
    // materialise), strong hands seated last
    for np in [7usize, 10, 15, 16, 17, 18, 20, 22] {
        let flop = low_flop(&mut rng);
        let mut cards: Vec<u8> = (0..52u8).filter(|c| !flop.contains(c)).collect();
        // keep aces and kings for the last seats
        let strong: Vec<u8> = cards.iter().cloned().filter(|c| *c < 8).collect();
        cards.retain(|c| *c >= 8);
        rng.shuffle(&mut cards);
        let mut players: Vec<RangeRecipe> = vec![];
        for i in 0..np {
            let mut e = vec![];
            if i + 2 >= np && strong.len() >= 4 {
                let k = (i + 2 - np) * 4;
                e.push((strong[k], strong[k + 1], w1()));
            } else if cards.len() >= 2 {
                let a = cards.pop().unwrap();
                let b = cards.pop().unwrap();
                e.push((a.min(b), a.max(b), w1()));
            }
            if e.is_empty() {
                e.push((strong[0], strong[2], w1()));
            }
            players.push(RangeRecipe::simple(e));
        }
        let scen = Scenario { flop, players };
        let sc = bounded_scope(scen.product(), max_states.min(400), pos_from_index(rng.usize_below(NPOS - 1)));
        push("many_players_7_to_22", scen, sc, &mut jobs);
    }
    // consumer styles: the same small scenarios through every std way of draining
    // an iterator, over scopes inside one turn row, across rows, to the terminal, unscoped
    {
        let scens = vec![
            Scenario { flop: gen_flop(&mut rng), players: vec![RangeRecipe::simple(sized_range(&mut rng, 3)), RangeRecipe::simple(sized_range(&mut rng, 2))] },
            Scenario { flop: gen_flop(&mut rng), players: vec![RangeRecipe::simple(sized_range(&mut rng, 5))] },
            Scenario { flop: gen_flop(&mut rng), players: vec![] },
        ];
        for scen in &scens {
            let t = rng.below(46) as u8;
            let scopes: Vec<Option<(Pos, Pos)>> = vec![
                Some(((t, t + 1), (t, 48))),
                Some(((0, 1), (0, 48))),
                Some(((t, 47), (t + 1, t + 3))),
                Some(((0, 1), (1, 30))),
                Some(((5, 9), (6, 48))),
                Some(((44, 45), TERMINAL)),
                Some(((47, 48), TERMINAL)),
                // the empty scope that starts at the terminal itself (what a splitter
                // hands its surplus workers)
                Some((TERMINAL, TERMINAL)),
                Some((pos_from_index(rng.usize_below(NPOS)), TERMINAL)),
                None,
            ];
            for sc in scopes {
                if let Some((f, to)) = sc {
                    if f > to {
                        continue;
                    }
                }
                for c in CONSUMERS.iter() {
                    let id = jobs.len();
                    jobs.push(Job { id, class: "consumer_styles".to_string(), scen: scen.clone(), scope: sc, stack: MIB2, consumer: c.to_string(), prelude: vec![] });
                }
            }
        }
    }
    // products beyond 2^32 (four to six wide ranges): far too long to drain, so only
    // the first 200 next() calls are made. Every player's *first* combo (in the
    // range's own iteration order) is made disjoint from the others', from the flop
    // and from the first turn/river cards, so that those calls are a few hundred
    // deals and not an astronomically long blocked run.
    for sizes in [vec![256usize, 256, 256, 256], vec![300, 300, 300, 300], vec![256, 256, 256, 255], vec![700, 700, 700, 700], vec![150, 150, 150, 150, 150], vec![60, 60, 60, 60, 60, 60]] {
        for _attempt in 0..200 {
            let flop = gen_flop(&mut rng);
            let players: Vec<RangeRecipe> = sizes.iter().map(|k| RangeRecipe::simple(sized_range(&mut rng, *k))).collect();
            let scen = Scenario { flop, players };
            let deck = deck_for(&flop);
            let mut used: Vec<u8> = vec![flop[0], flop[1], flop[2], deck[0], deck[1]];
            let mut ok = true;
            for r in scen.build_ranges() {
                match r.card_pairs().iter().next() {
                    Some((cp, _)) => {
                        let (a, b) = pair_codes(cp);
                        if used.contains(&a) || used.contains(&b) {
                            ok = false;
                            break;
                        }
                        used.push(a);
                        used.push(b);
                    }
                    None => ok = false,
                }
            }
            if ok {
                let id = jobs.len();
                jobs.push(Job { id, class: "product_beyond_2_pow_32".to_string(), scen, scope: None, stack: MIB2, consumer: CONSUMER_PREFIX.to_string(), prelude: vec![] });
                break;
            }
        }
    }
    // unusual weights: NaN, infinities, negatives, subnormals, values printing in
    // exponent form, among ordinary ones, in ranges of 2..300 combos
    let odd: [f32; 8] = [f32::NAN, f32::INFINITY, f32::NEG_INFINITY, -1.0, -0.0, 1.0e-40, 1.0e-10, 3.0e30];
    let nodd = if quick { 40 } else { 600 };
    for _ in 0..nodd {
        let flop = gen_flop(&mut rng);
        let np = rng.range(1, 3) as usize;
        let victim = rng.usize_below(np);
        let players: Vec<RangeRecipe> = (0..np)
            .map(|i| {
                let k = if i == victim { *rng.pick(&[2usize, 5, 20, 21, 30, 48, 64, 100, 300]) } else { rng_small(&mut rng) };
                let mut e = sized_range(&mut rng, k);
                if i == victim {
                    // graded ordinary weights with one or two odd ones in between
                    for (j, x) in e.iter_mut().enumerate() {
                        x.2 = (((j % 7) as f32 + 1.0) / 8.0).to_bits();
                    }
                    for _ in 0..rng.range(1, 2) {
                        let at = rng.usize_below(e.len());
                        e[at].2 = odd[rng.usize_below(odd.len())].to_bits();
                    }
                }
                RangeRecipe::simple(e)
            })
            .collect();
        let scen = Scenario { flop, players };
        let sc = bounded_scope(scen.product(), max_states / 4, FIRST);
        push("unusual_weights", scen, sc, &mut jobs);
    }
    // several evaluators on one worker thread: earlier ones (other flops) are
    // peeked at and abandoned, then one is drained; its players hold cards of
    // the earlier flops (state a change might keep per thread must not leak)
    let nseq = if quick { 48 } else { 600 };
    for _ in 0..nseq {
        // the first abandoned evaluator sits on trips or a paired flop half of the time:
        // a later player holding those cards makes any stale count overflow
        let f1 = match rng.below(4) {
            0 | 1 => {
                let r = rng.below(13) as u8;
                let mut suits = [0u8, 1, 2, 3];
                rng.shuffle(&mut suits);
                [r * 4 + suits[0], r * 4 + suits[1], r * 4 + suits[2]]
            }
            2 => {
                let r = rng.below(13) as u8;
                let o = loop {
                    let o = rng.below(52) as u8;
                    if o / 4 != r {
                        break o;
                    }
                };
                [r * 4 + rng.below(2) as u8, r * 4 + 2 + rng.below(2) as u8, o]
            }
            _ => gen_flop(&mut rng),
        };
        let mut prelude = vec![];
        for _ in 0..rng.range(1, 3) {
            let pf = if prelude.is_empty() { f1 } else { gen_flop(&mut rng) };
            let psc = Scenario { flop: pf, players: vec![RangeRecipe::simple(sized_range(&mut rng, 2)), RangeRecipe::simple(sized_range(&mut rng, 1))] };
            let take = *rng.pick(&[1u32, 1, 2, 3, 7, 40]);
            let pscope = if rng.chance(1, 3) { Some((pos_from_index(rng.usize_below(NPOS - 1)), TERMINAL)) } else { None };
            prelude.push((psc, pscope, take));
        }
        let f2 = loop {
            let f = gen_flop(&mut rng);
            if f.iter().all(|c| !f1.contains(c)) {
                break f;
            }
        };
        // a player made of the first flop's cards, another random
        let mut from_f1 = vec![(f1[0].min(f1[1]), f1[0].max(f1[1]), w1())];
        if rng.chance(1, 2) {
            from_f1.push((f1[1].min(f1[2]), f1[1].max(f1[2]), w1()));
        }
        let other = sized_range(&mut rng, 2);
        let players = if rng.chance(1, 2) { vec![RangeRecipe::simple(from_f1), RangeRecipe::simple(other)] } else { vec![RangeRecipe::simple(other), RangeRecipe::simple(from_f1)] };
        let scen = Scenario { flop: f2, players };
        let scope = if rng.chance(2, 3) { None } else { Some((pos_from_index(rng.usize_below(40)), TERMINAL)) };
        let id = jobs.len();
        jobs.push(Job { id, class: "sequence_on_one_worker".to_string(), scen, scope, stack: MIB2, consumer: "next".to_string(), prelude });
    }
    // a random consumer for the cheap jobs of the other classes
    for j in jobs.iter_mut() {
        if j.class != "consumer_styles" && j.consumer != CONSUMER_PREFIX && j.states() <= 150_000 && rng.chance(1, 2) {
            j.consumer = CONSUMERS[rng.usize_below(CONSUMERS.len())].to_string();
        }
    }
    // an empty range seated BEHIND a player whose every combo holds the first turn
    // or river card of the scope (the very first deal is blocked before the empty
    // seat is looked at), and in front of one; own PRNG stream, appended last so
    // the jobs above are what they were
    {
        let mut rng = Rng::new(run_seed(vs, "C08", profile, 1));
        for np in 2..=4usize {
            for empty_seat in 0..np {
                for by_river in [false, true] {
                    let flop = gen_flop(&mut rng);
                    let deck = deck_for(&flop);
                    let from = if rng.chance(1, 2) { FIRST } else { pos_from_index(rng.usize_below(NPOS - 1)) };
                    let bc = if by_river { deck[from.1 as usize] } else { deck[from.0 as usize] };
                    let blocker_seat = if empty_seat == 0 { rng.range(1, np as u64 - 1) as usize } else { rng.usize_below(empty_seat) };
                    let players: Vec<RangeRecipe> = (0..np)
                        .map(|i| {
                            if i == empty_seat {
                                RangeRecipe::simple(vec![])
                            } else if i == blocker_seat {
                                let mut e: Vec<(u8, u8, u32)> = vec![];
                                for _ in 0..rng.range(1, 3) {
                                    let o = deck[rng.usize_below(49)];
                                    if o != bc && !e.iter().any(|x| x.0 == o || x.1 == o) {
                                        e.push((o.min(bc), o.max(bc), w1()));
                                    }
                                }
                                if e.is_empty() {
                                    let o = if deck[0] != bc { deck[0] } else { deck[1] };
                                    e.push((o.min(bc), o.max(bc), w1()));
                                }
                                RangeRecipe::simple(e)
                            } else {
                                let k2 = rng_small(&mut rng);
                                RangeRecipe::simple(sized_range(&mut rng, k2))
                            }
                        })
                        .collect();
                    let scope = if from == FIRST && rng.chance(1, 2) { None } else { Some((from, TERMINAL)) };
                    let id = jobs.len();
                    let consumer = if rng.chance(1, 2) { "next".to_string() } else { CONSUMERS[rng.usize_below(CONSUMERS.len())].to_string() };
                    jobs.push(Job { id, class: "empty_behind_blocked".to_string(), scen: Scenario { flop, players }, scope, stack: MIB2, consumer, prelude: vec![] });
                }
            }
        }
    }
    jobs
}

fn rng_small(rng: &mut Rng) -> usize {
    *rng.pick(&[1usize, 1, 1, 2, 3])
}

/// Lower bound of the longest run of consecutive blocked deals: consecutive
/// positions in scope whose turn or river card blocks every combo of some player.
fn blocked_run_lower_bound(job: &Job) -> u64 {
    let deck = deck_for(&job.scen.flop);
    let (fi, ti) = match job.scope {
        Some((f, t)) => (pos_index(f), pos_index(t)),
        None => (0, NPOS),
    };
    let prod = job.scen.product();
    if prod == 0 {
        return 0;
    }
    let mut best = 0u64;
    let mut cur = 0u64;
    for pi in fi..ti {
        let p = pos_from_index(pi);
        let (tc, rc) = (deck[p.0 as usize], deck[p.1 as usize]);
        let fully = job.scen.players.iter().any(|pl| {
            !pl.entries.is_empty() && pl.entries.iter().all(|e| e.0 == tc || e.1 == tc || e.0 == rc || e.1 == rc || job.scen.flop.contains(&e.0) || job.scen.flop.contains(&e.1))
        });
        if fully {
            cur = cur.saturating_add(prod);
            best = best.max(cur);
        } else {
            cur = 0;
        }
    }
    best
}

fn minimise(profile: &str, job: &Job, okey: &str, watchdog: Duration) -> (Job, usize) {
    let mut best = job.clone();
    let mut tried = 0usize;
    if okey == "hang" {
        // every candidate would cost a full watchdog period: reported as found
        return (best, 0);
    }
    // a candidate that does not finish quickly is simply not a smaller witness
    let watchdog = watchdog.min(Duration::from_secs(30));
    let fails = |j: &Job, tried: &mut usize| -> bool {
        if *tried >= 60 {
            return false;
        }
        *tried += 1;
        match run_jobs(profile, std::slice::from_ref(j), watchdog) {
            Ok(rs) => rs.first().and_then(|r| judge(j, r)).map(|(k, _)| k == okey).unwrap_or(false),
            Err(_) => false,
        }
    };
    let mut progress = true;
    while progress && tried < 60 {
        progress = false;
        // drop players
        let mut p = 0;
        while p < best.scen.players.len() {
            let mut c = best.clone();
            c.scen.players.remove(p);
            if fails(&c, &mut tried) {
                best = c;
                progress = true;
                continue;
            }
            p += 1;
        }
        // halve ranges
        for p in 0..best.scen.players.len() {
            loop {
                let n = best.scen.players[p].entries.len();
                if n <= 1 {
                    break;
                }
                let mut done = false;
                for (lo, hi) in [(0, n / 2), (n / 2, n), (0, n - 1)] {
                    let mut c = best.clone();
                    c.scen.players[p].entries = best.scen.players[p].entries[lo..hi].to_vec();
                    if fails(&c, &mut tried) {
                        best = c;
                        progress = true;
                        done = true;
                        break;
                    }
                }
                if !done {
                    break;
                }
            }
        }
        // fewer / shorter earlier evaluators
        let mut pi = 0;
        while pi < best.prelude.len() {
            let mut c = best.clone();
            c.prelude.remove(pi);
            if fails(&c, &mut tried) {
                best = c;
                progress = true;
                continue;
            }
            pi += 1;
        }
        // simplest consumer
        if best.consumer != "next" && best.consumer != CONSUMER_PREFIX {
            let mut c = best.clone();
            c.consumer = "next".to_string();
            if fails(&c, &mut tried) {
                best = c;
                progress = true;
            }
        }
        // plain recipes
        let mut c = best.clone();
        let mut changed = false;
        for pl in c.scen.players.iter_mut() {
            if pl.hash_seed != 0 || pl.hint.is_some() || pl.how == How::NoHint {
                pl.hash_seed = 0;
                pl.hint = None;
                pl.how = How::Collect;
                changed = true;
            }
        }
        if changed && fails(&c, &mut tried) {
            best = c;
            progress = true;
        }
    }
    (best, tried)
}

fn job_key(j: &Job) -> String {
    let mut f = Fold::new();
    f.add_str(&j.scen.to_json().to_string());
    f.add_str(&j.consumer);
    for (sc, _, k) in &j.prelude {
        f.add_str(&sc.to_json().to_string());
        f.add(*k as u64);
    }
    if let Some((a, b)) = j.scope {
        f.add(pos_index(a) as u64);
        f.add(pos_index(b) as u64);
    }
    format!("{:08x}", f.get() as u32)
}

pub fn run(tier: &str) -> i32 {
    let vs = verif_seed();
    let quick = tier == "quick";
    let mut ev = Evidence::new("C08", tier, "exploration");
    ev.rule = "one evaluation = one evaluator drained to the end on a 2 MiB-stack worker thread inside a child process, per build profile; adversarial classes: narrow-beside-wide blocked runs, all-blocked, flop-card ranges, 3-6 mutually blocking players, range sizes 0..1326 per player slot, several big ranges at once, empty player list, random mixes. distinct_nontrivial = distinct (profile, scenario, scope) hashes whose scenario has >= 1 player and >= 2 odometer states or an empty range".into();
    ev.assumptions = vec![
        "scope() is used only to bound the cost of a run (a few turn rows of a wide scenario); each run still drains its evaluator to None".into(),
        "violation threshold is exactly the 2 MiB worker stack of the statement; the stack ladder below it is information only".into(),
        "the wall-clock watchdog (oracle 'hang') is the only place real time is read; it is >= 120 s per run and runs are sized to finish in about a second".into(),
        "stack overflow is detected as death of the child by signal (Rust aborts); replay compares the failure class, not a byte-exact log".into(),
    ];
    let watchdog = Duration::from_secs(if quick { 120 } else { 600 });
    let mut all_results: BTreeMap<String, (usize, usize)> = BTreeMap::new();
    let mut first_by_key: BTreeMap<(String, String), (Job, JobResult, String, u64)> = BTreeMap::new();
    let mut count_by_key: BTreeMap<(String, String), u64> = BTreeMap::new();
    let mut logfold = Fold::new();
    let mut all_shards: BTreeMap<String, Vec<Vec<Job>>> = BTreeMap::new();
    for profile in ["release", "dev"] {
        let jobs = gen_jobs(vs, tier, profile);
        // shards: interleave so every shard has a mix of cheap and dear jobs
        // a fixed number of shards (not the worker count): which jobs share a child
        // process, and in which order, is part of the deterministic plan
        let nshards = 16usize.min(jobs.len().max(1));
        let mut shards: Vec<Vec<Job>> = vec![vec![]; nshards];
        for (i, j) in jobs.iter().enumerate() {
            shards[i % nshards].push(j.clone());
        }
        all_shards.insert(profile.to_string(), shards.clone());
        let prof = profile.to_string();
        let shard_results = par_map(nshards, workers(), move |si| run_jobs(&prof, &shards[si], watchdog));
        let mut by_id: BTreeMap<usize, JobResult> = BTreeMap::new();
        for sr in shard_results {
            match sr {
                Ok(rs) => {
                    for r in rs {
                        by_id.insert(r.id, r);
                    }
                }
                Err(e) => {
                    eprintln!("HARNESS ERROR: {e}");
                    return 2;
                }
            }
        }
        let mut ok = 0usize;
        for j in &jobs {
            let Some(r) = by_id.get(&j.id) else {
                eprintln!("HARNESS ERROR: no result for job {} ({profile})", j.id);
                return 2;
            };
            ev.evaluations += 1;
            ev.steps += r.calls;
            logfold.add(j.id as u64);
            logfold.add(r.yields);
            logfold.add(r.calls);
            logfold.add_str(&r.outcome.split(" @ ").next().unwrap_or(""));
            ev.fault("stack_2MiB", 1);
            if profile == "dev" {
                ev.fault("profile_dev", 1);
            }
            if (j.scen.players.len() >= 1 && j.states() >= 2) || j.has_empty_range() {
                let mut f = Fold::new();
                f.add_str(profile);
                f.add_str(&job_key(j));
                ev.distinct.insert(f.get());
            }
            ev.probe(&format!("class:{}", j.class.split('_').take(2).collect::<Vec<_>>().join("_")), 1);
            ev.probe(&format!("consumer:{}", j.consumer), 1);
            if j.scen.players.len() > 16 {
                ev.probe("more_than_16_players", 1);
            }
            let lb = blocked_run_lower_bound(j);
            let e = ev.probes.entry(format!("longest_blocked_run_lower_bound_{profile}")).or_insert(0);
            *e = (*e).max(lb);
            for pl in &j.scen.players {
                let n = pl.distinct_len();
                let cls = match n {
                    0 => "0",
                    1 => "1",
                    255 => "255",
                    256 => "256",
                    257 => "257",
                    1326 => "1326",
                    2..=254 => "2-254",
                    _ => "258-1325",
                };
                ev.probe(&format!("range_size_class_{cls}"), 1);
            }
            if r.outcome == "inconclusive_slow" {
                ev.probe("prefix_jobs_inconclusive_too_slow", 1);
            }
            match judge(j, r) {
                None => ok += 1,
                Some((okey, detail)) => {
                    let k = (okey.clone(), profile.to_string());
                    *count_by_key.entry(k.clone()).or_insert(0) += 1;
                    // keep the cheapest failing job per class for minimisation
                    let better = match first_by_key.get(&k) {
                        None => true,
                        Some((pj, _, _, _)) => j.states() < pj.states(),
                    };
                    if better {
                        first_by_key.insert(k, (j.clone(), r.clone(), detail, run_seed(vs, "C08", profile, 0)));
                    }
                }
            }
            if ev.samples.len() < 10 && (j.id % 17 == 0) {
                ev.sample(json!({"profile": profile, "class": j.class, "consumer": j.consumer, "scenario": j.scen.short(),
                    "scope": j.scope.map(|(f,t)| format!("{}..{}", pos_str(f), pos_str(t))),
                    "odometer_states": j.states(), "yields": r.yields, "next_calls": r.calls, "outcome": r.outcome}));
            }
        }
        all_results.insert(profile.to_string(), (jobs.len(), ok));
    }
    for ((okey, profile), (job, _r, detail, seed)) in first_by_key.iter() {
        // does the job fail this way on its own, in a fresh process? if not, it depends
        // on the jobs its child process ran before it: replay that prefix
        let alone = run_jobs(profile, std::slice::from_ref(job), watchdog)
            .ok()
            .and_then(|rs| rs.first().and_then(|r| judge(job, r)))
            .map(|(k, _)| k == *okey)
            .unwrap_or(false);
        if !alone {
            let shards = &all_shards[profile];
            let si = job.id % shards.len();
            let pos = shards[si].iter().position(|j| j.id == job.id).unwrap_or(0);
            let prefix: Vec<Value> = shards[si][..=pos].iter().map(|j| j.to_json()).collect();
            ev.violations.push(Violation {
                property: "C08".into(),
                oracle: okey.clone(),
                key: format!("{okey}:history:{profile}:shard{si}:0..={pos}"),
                detail: format!("[{profile}] consumer={} {}: {} — not reproducible from this run alone in a fresh process: it depends on the {pos} runs the same worker process drained before it (the replay re-runs them)", job.consumer, job.scen.short(), detail),
                seed: *seed,
                replay: json!({"kind":"c08_history","profile":profile,"jobs":prefix,"expected_oracle":okey}),
            });
            continue;
        }
        let (min, tried) = minimise(profile, job, okey, watchdog);
        let fin = run_jobs(profile, std::slice::from_ref(&min), watchdog)
            .ok()
            .and_then(|rs| rs.first().and_then(|r| judge(&min, r)));
        let detail = fin.map(|x| x.1).unwrap_or(detail.clone());
        let n = count_by_key.get(&(okey.clone(), profile.clone())).cloned().unwrap_or(1);
        ev.violations.push(Violation {
            property: "C08".into(),
            oracle: okey.clone(),
            key: format!("{okey}:{}", job_key(&min)),
            detail: format!(
                "[{profile}] consumer={}{} {} scope {} ({} odometer states): {} — {} of this tier's {profile} runs fail this way",
                min.consumer,
                if min.prelude.is_empty() { String::new() } else { format!(" after {} earlier evaluator(s) on the same thread [{}]", min.prelude.len(), min.prelude.iter().map(|(sc, _, k)| format!("{} x{k}", sc.short())).collect::<Vec<_>>().join("; ")) },
                min.scen.short(),
                min.scope.map(|(f, t)| format!("{}..{}", pos_str(f), pos_str(t))).unwrap_or("full".into()),
                min.states(),
                detail,
                n
            ),
            seed: *seed,
            replay: json!({"kind":"c08","profile":profile,"job":min.to_json(),"shrink_candidates":tried,"expected_oracle":okey}),
        });
    }
    // stack margin ladder (information only)
    let mut ladder = vec![];
    for profile in ["release", "dev"] {
        let mut rng = Rng::new(run_seed(vs, "C08", "ladder", 0));
        let trivial = Scenario { flop: [40, 45, 50], players: vec![RangeRecipe::simple(vec![(0, 1, w1())])] };
        let adversarial = Scenario {
            flop: [40, 45, 50],
            players: vec![RangeRecipe::simple(vec![(0, 1, w1())]), RangeRecipe::simple(wide_range(&mut rng, 300, &[0, 1]))],
        };
        for (name, scen) in [("one_combo", trivial), ("AsAh_vs_300", adversarial)] {
            let mut smallest_pass: Option<usize> = None;
            for kib in [2048usize, 1024, 256, 64] {
                let sc = bounded_scope(scen.product(), if profile == "dev" { 60_000 } else { 600_000 }, FIRST);
                let job = Job { id: 0, class: "ladder".into(), scen: scen.clone(), scope: sc, stack: kib * 1024, consumer: "next".into(), prelude: vec![] };
                match run_jobs(profile, std::slice::from_ref(&job), watchdog) {
                    Ok(rs) if rs.first().map(|r| r.outcome == "end").unwrap_or(false) => smallest_pass = Some(kib),
                    _ => break,
                }
            }
            ladder.push(json!({"profile": profile, "workload": name, "smallest_passing_stack_KiB": smallest_pass}));
        }
    }
    ev.extra.insert("stack_ladder_information_only".into(), json!(ladder));
    ev.extra.insert("per_profile_runs_ok".into(), json!(all_results.iter().map(|(k, (n, ok))| json!({"profile": k, "runs": n, "held": ok})).collect::<Vec<_>>()));
    ev.extra.insert("event_log_digest".into(), json!(format!("{:016x}", logfold.get())));
    ev.extra.insert("components".into(), json!({
        "real": ["FlopExhaustiveEvaluator + iterator next()", "Showdown::new", "HandRange collect/parse"],
        "stub": ["the example's worker closure (spawn on a default-size stack, drain) re-modelled with Builder::stack_size(2 MiB)"],
        "simulated": ["worker stack size", "build profile (dev/release binaries of the same harness)", "process death observed by the parent"],
    }));
    ev.finish()
}

pub fn replay(v: &Value) -> Option<(String, String)> {
    let r = &v["replay"];
    let profile = r["profile"].as_str().unwrap_or("release").to_string();
    if r["kind"].as_str() == Some("c08_history") {
        let jobs: Vec<Job> = r["jobs"].as_array()?.iter().filter_map(|j| Job::from_json(j).ok()).collect();
        let rs = run_jobs(&profile, &jobs, Duration::from_secs(300)).ok()?;
        let last = jobs.last()?;
        let res = rs.iter().find(|x| x.id == last.id)?;
        let tail = v["key"].as_str().and_then(|k| k.split_once(":history:")).map(|x| x.1.to_string()).unwrap_or_default();
        return judge(last, res).map(|(k, d)| (format!("{k}:history:{tail}"), format!("[{profile}] {d}")));
    }
    let job = Job::from_json(&r["job"]).ok()?;
    let rs = run_jobs(&profile, std::slice::from_ref(&job), Duration::from_secs(300)).ok()?;
    let res = rs.first()?;
    judge(&job, res).map(|(k, d)| (format!("{k}:{}", job_key(&job)), format!("[{profile}] {d}")))
}
