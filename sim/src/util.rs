//! Batch runner, evidence and replay-file plumbing. Wall-clock time is read
//! only here (throughput / watchdog), never inside a simulated run.

use serde_json::{json, Map, Value};
use std::collections::{BTreeMap, BTreeSet};
use std::path::{Path, PathBuf};
use std::sync::atomic::{AtomicUsize, Ordering};
use std::sync::{Arc, Mutex};
use std::time::Instant;

pub const BIG_STACK: usize = 1 << 30; // 1 GiB virtual; committed lazily

pub fn verif_dir() -> PathBuf {
    std::env::var("VERIF_DIR")
        .map(PathBuf::from)
        .unwrap_or_else(|_| PathBuf::from("/verif"))
}

/// Where evidence and replay files go (self-tests point this at a scratch dir).
pub fn out_dir() -> PathBuf {
    std::env::var("VERIF_OUT").map(PathBuf::from).unwrap_or_else(|_| verif_dir())
}

pub fn repo_dir() -> PathBuf {
    PathBuf::from(env!("ESPADA_REPO_DIR"))
}

pub fn verif_seed() -> u64 {
    std::env::var("VERIF_SEED")
        .ok()
        .and_then(|s| s.trim().parse::<u64>().ok())
        .unwrap_or(1)
}

pub fn workers() -> usize {
    std::env::var("VERIF_WORKERS")
        .ok()
        .and_then(|s| s.parse::<usize>().ok())
        .filter(|n| *n > 0)
        .unwrap_or_else(|| {
            std::thread::available_parallelism()
                .map(|n| n.get())
                .unwrap_or(4)
                .min(16)
        })
}

/// Run `f(i)` for i in 0..n on `threads` big-stack threads; results come back
/// in index order, so nothing downstream depends on the thread count.
pub fn par_map<T: Send + 'static>(
    n: usize,
    threads: usize,
    f: impl Fn(usize) -> T + Send + Sync + 'static,
) -> Vec<T> {
    let f = Arc::new(f);
    let next = Arc::new(AtomicUsize::new(0));
    let slots: Arc<Mutex<Vec<Option<T>>>> = Arc::new(Mutex::new((0..n).map(|_| None).collect()));
    let mut hs = vec![];
    for w in 0..threads.max(1).min(n.max(1)) {
        let f = f.clone();
        let next = next.clone();
        let slots = slots.clone();
        hs.push(
            std::thread::Builder::new()
                .name(format!("sim-worker-{w}"))
                .stack_size(BIG_STACK)
                .spawn(move || loop {
                    let i = next.fetch_add(1, Ordering::SeqCst);
                    if i >= n {
                        break;
                    }
                    let r = f(i);
                    slots.lock().unwrap()[i] = Some(r);
                })
                .expect("spawn worker"),
        );
    }
    for h in hs {
        if h.join().is_err() {
            eprintln!("HARNESS ERROR: a batch worker panicked");
            std::process::exit(2);
        }
    }
    let mut g = slots.lock().unwrap();
    g.drain(..).map(|x| x.expect("slot filled")).collect()
}

/// Run `f` on a brand-new big-stack thread: every simulated case starts with
/// pristine thread-local state, so what a case shows does not depend on which
/// cases the batch worker ran before it (and a replay in a fresh process sees
/// the same thing).
pub fn fresh_thread<T: Send>(f: impl FnOnce() -> T + Send) -> T {
    std::thread::scope(|s| {
        std::thread::Builder::new()
            .stack_size(BIG_STACK)
            .spawn_scoped(s, f)
            .expect("spawn case thread")
            .join()
            .unwrap_or_else(|_| {
                eprintln!("HARNESS ERROR: a case thread panicked");
                std::process::exit(2)
            })
    })
}

// ------------------------------------------------------------------ violations

#[derive(Clone, Debug)]
pub struct Violation {
    pub property: String,
    pub oracle: String,
    /// stable identity of *what* fails (used against known_findings.json)
    pub key: String,
    pub detail: String,
    pub seed: u64,
    /// self-contained replay description (explicit scenario + trace, no PRNG)
    pub replay: Value,
}

impl Violation {
    pub fn to_json(&self) -> Value {
        json!({
            "property": self.property,
            "oracle": self.oracle,
            "key": self.key,
            "detail": self.detail,
            "seed": self.seed.to_string(),
            "replay": self.replay,
        })
    }
}

pub fn write_replay(v: &Violation) -> PathBuf {
    let dir = out_dir().join("replays");
    let _ = std::fs::create_dir_all(&dir);
    let safe: String = v
        .key
        .chars()
        .map(|c| if c.is_ascii_alphanumeric() { c } else { '_' })
        .take(48)
        .collect();
    let path = dir.join(format!("{}-{}-{}.json", v.property, v.seed, safe));
    std::fs::write(&path, serde_json::to_string_pretty(&v.to_json()).unwrap()).expect("write replay");
    path
}

// --------------------------------------------------------------- known findings

#[derive(Clone, Debug, Default)]
pub struct Known {
    /// (property, key prefix, what)
    pub findings: Vec<(String, String, String)>,
}

pub fn load_known() -> Known {
    let p = verif_dir().join("known_findings.json");
    let mut k = Known::default();
    if let Ok(t) = std::fs::read_to_string(&p) {
        if let Ok(v) = serde_json::from_str::<Value>(&t) {
            if let Some(a) = v["findings"].as_array() {
                for f in a {
                    k.findings.push((
                        f["property"].as_str().unwrap_or("").to_string(),
                        f["key"].as_str().unwrap_or("\u{0}").to_string(),
                        f["what"].as_str().unwrap_or("").to_string(),
                    ));
                }
            }
        }
    }
    k
}

impl Known {
    /// A listed finding suppresses exactly the violations whose key equals its key.
    pub fn matches(&self, v: &Violation) -> Option<&(String, String, String)> {
        self.findings
            .iter()
            .find(|(p, k, _)| *p == v.property && *k == v.key)
    }
}

// -------------------------------------------------------------------- evidence

pub struct Evidence {
    pub property: String,
    pub tier: String,
    pub seed: u64,
    pub level: String,
    pub started: Instant,
    pub evaluations: u64,
    pub distinct: BTreeSet<u64>,
    pub rule: String,
    pub samples: Vec<Value>,
    pub steps: u64,
    pub faults: BTreeMap<String, u64>,
    pub probes: BTreeMap<String, u64>,
    pub extra: Map<String, Value>,
    pub assumptions: Vec<String>,
    pub violations: Vec<Violation>,
    pub known_hits: Vec<String>,
    pub exhaustive: Option<bool>,
}

impl Evidence {
    pub fn new(property: &str, tier: &str, level: &str) -> Evidence {
        Evidence {
            property: property.to_string(),
            tier: tier.to_string(),
            seed: verif_seed(),
            level: level.to_string(),
            started: Instant::now(),
            evaluations: 0,
            distinct: BTreeSet::new(),
            rule: String::new(),
            samples: vec![],
            steps: 0,
            faults: BTreeMap::new(),
            probes: BTreeMap::new(),
            extra: Map::new(),
            assumptions: vec![],
            violations: vec![],
            known_hits: vec![],
            exhaustive: None,
        }
    }
    pub fn fault(&mut self, k: &str, n: u64) {
        *self.faults.entry(k.to_string()).or_insert(0) += n;
    }
    pub fn probe(&mut self, k: &str, n: u64) {
        *self.probes.entry(k.to_string()).or_insert(0) += n;
    }
    pub fn merge_counts(&mut self, faults: &BTreeMap<String, u64>, probes: &BTreeMap<String, u64>) {
        for (k, v) in faults {
            self.fault(k, *v);
        }
        for (k, v) in probes {
            self.probe(k, *v);
        }
    }
    pub fn sample(&mut self, v: Value) {
        if self.samples.len() < 12 {
            self.samples.push(v);
        }
    }

    /// Writes evidence, prints KNOWN-FINDING / VIOLATION lines, returns exit code.
    pub fn finish(mut self) -> i32 {
        let wall = self.started.elapsed().as_secs_f64();
        let known = load_known();
        let mut fresh: Vec<&Violation> = vec![];
        let mut known_lines: BTreeSet<String> = BTreeSet::new();
        for v in &self.violations {
            if let Some((p, _k, what)) = known.matches(v) {
                known_lines.insert(format!("KNOWN-FINDING: property={} {}", p, what));
            } else {
                fresh.push(v);
            }
        }
        for l in &known_lines {
            println!("{l}");
            self.known_hits.push(l.clone());
        }
        let mut paths = vec![];
        // report each distinct key once
        let mut seen = BTreeSet::new();
        for v in &fresh {
            if !seen.insert(v.key.clone()) {
                continue;
            }
            if paths.len() >= 8 {
                break;
            }
            let p = write_replay(v);
            println!(
                "VIOLATION property={} replay={}",
                v.property,
                p.display()
            );
            println!("  oracle={} key={} seed={}", v.oracle, v.key, v.seed);
            println!("  {}", v.detail);
            paths.push(p.display().to_string());
        }
        let runs_per_hour = if wall > 0.0 {
            (self.evaluations as f64 / wall * 3600.0) as u64
        } else {
            0
        };
        let mut cov = Map::new();
        cov.insert("evaluations".into(), json!(self.evaluations));
        cov.insert("distinct_nontrivial".into(), json!(self.distinct.len()));
        cov.insert("rule".into(), json!(self.rule));
        cov.insert("samples".into(), Value::Array(self.samples.clone()));
        if let Some(e) = self.exhaustive {
            cov.insert("exhaustive".into(), json!(e));
        }
        cov.insert("simulated_runs_per_hour".into(), json!(runs_per_hour));
        cov.insert(
            "simulated_time_logical_steps".into(),
            json!(self.steps),
        );
        cov.insert("faults_fired".into(), json!(self.faults));
        cov.insert("probes".into(), json!(self.probes));
        for (k, v) in self.extra.iter() {
            cov.insert(k.clone(), v.clone());
        }
        cov.insert("replay_files".into(), json!(paths));
        cov.insert("known_findings_hit".into(), json!(self.known_hits));
        let ev = json!({
            "property_id": self.property,
            "tier": self.tier,
            "seed": self.seed,
            "level": self.level,
            "coverage": Value::Object(cov),
            "assumptions": self.assumptions,
            "wall_s": (wall * 1000.0).round() / 1000.0,
            "violations": fresh.len(),
        });
        let dir = out_dir().join("evidence");
        let _ = std::fs::create_dir_all(&dir);
        let path = dir.join(format!("{}.json", self.property));
        if let Err(e) = std::fs::write(&path, serde_json::to_string_pretty(&ev).unwrap()) {
            eprintln!("HARNESS ERROR: cannot write evidence {}: {e}", path.display());
            return 2;
        }
        println!(
            "{} {}: runs={} distinct_nontrivial={} steps={} violations={} known={} wall={:.1}s evidence={}",
            self.property,
            self.tier,
            self.evaluations,
            self.distinct.len(),
            self.steps,
            fresh.len(),
            known_lines.len(),
            wall,
            path.display()
        );
        if fresh.is_empty() {
            0
        } else {
            1
        }
    }
}

pub fn read_json(path: &Path) -> Result<Value, String> {
    let t = std::fs::read_to_string(path).map_err(|e| format!("{}: {e}", path.display()))?;
    serde_json::from_str(&t).map_err(|e| format!("{}: {e}", path.display()))
}

/// Source inventory of constructs that could carry cross-call or cross-thread
/// state in the crate (coverage information, never an alarm).
pub fn inventory() -> Vec<String> {
    let pats = [
        "static ",
        "thread_local!",
        "lazy_static",
        "OnceLock",
        "OnceCell",
        "LazyLock",
        "LazyCell",
        "Mutex",
        "RwLock",
        "Atomic",
        "RefCell",
        "Cell<",
        "UnsafeCell",
        "unsafe ",
        "RandomState",
        "std::env",
        "std::time",
        "std::thread",
        "std::sync",
        "std::fs",
        "std::process",
        "Rc<",
        "*mut ",
        "*const ",
    ];
    let mut hits = vec![];
    let root = repo_dir().join("src");
    let mut stack = vec![root];
    let mut files = vec![];
    while let Some(d) = stack.pop() {
        if let Ok(rd) = std::fs::read_dir(&d) {
            for e in rd.flatten() {
                let p = e.path();
                if p.is_dir() {
                    stack.push(p);
                } else if p.extension().map(|x| x == "rs").unwrap_or(false) {
                    files.push(p);
                }
            }
        }
    }
    files.sort();
    for p in files {
        if p.file_name().map(|n| n == "verif.rs").unwrap_or(false) {
            continue; // the guarded hook itself
        }
        if let Ok(t) = std::fs::read_to_string(&p) {
            for (ln, line) in t.lines().enumerate() {
                let l = line.trim_start();
                if l.starts_with("//") {
                    continue;
                }
                for pat in pats.iter() {
                    if l.contains(pat) {
                        // `'static` lifetimes and `static` inside strings are rare here; keep simple
                        if *pat == "static " && (l.contains("'static ") && !l.contains(" static ") && !l.starts_with("static ")) {
                            continue;
                        }
                        hits.push(format!("{}:{}: {}", p.display(), ln + 1, pat.trim()));
                        break;
                    }
                }
            }
        }
    }
    hits
}
