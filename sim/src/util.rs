//! Batch runner, evidence and replay-file plumbing. Wall-clock time is read
//! only here (throughput / watchdog), never inside a simulated run.

use serde_json::{json, Map, Value};
use std::collections::{BTreeMap, BTreeSet};
use std::path::{Path, PathBuf};
use std::sync::atomic::{AtomicUsize, Ordering};
use std::sync::{Arc, Mutex};
use std::time::Instant;

pub const BIG_STACK: usize = 1 << 30; // 1 GiB virtual; committed lazily

pub fn verif_dir() -> PathBuf {
    std::env::var("VERIF_DIR")
        .map(PathBuf::from)
        .unwrap_or_else(|_| PathBuf::from("/verif"))
}

/// Where evidence and replay files go (self-tests point this at a scratch dir).
pub fn out_dir() -> PathBuf {
    std::env::var("VERIF_OUT").map(PathBuf::from).unwrap_or_else(|_| verif_dir())
}

pub fn repo_dir() -> PathBuf {
    PathBuf::from(env!("ESPADA_REPO_DIR"))
}

pub fn verif_seed() -> u64 {
    std::env::var("VERIF_SEED")
        .ok()
        .and_then(|s| s.trim().parse::<u64>().ok())
        .unwrap_or(1)
}

pub fn workers() -> usize {
    std::env::var("VERIF_WORKERS")
        .ok()
        .and_then(|s| s.parse::<usize>().ok())
        .filter(|n| *n > 0)
        .unwrap_or_else(|| {
            std::thread::available_parallelism()
                .map(|n| n.get())
                .unwrap_or(4)
                .min(16)
        })
}

/// Run `f(i)` for i in 0..n on `threads` big-stack threads; results come back
/// in index order, so nothing downstream depends on the thread count.
pub fn par_map<T: Send + 'static>(
    n: usize,
    threads: usize,
    f: impl Fn(usize) -> T + Send + Sync + 'static,
) -> Vec<T> {
    let f = Arc::new(f);
    let next = Arc::new(AtomicUsize::new(0));
    let slots: Arc<Mutex<Vec<Option<T>>>> = Arc::new(Mutex::new((0..n).map(|_| None).collect()));
    let mut hs = vec![];
    for w in 0..threads.max(1).min(n.max(1)) {
        let f = f.clone();
        let next = next.clone();
        let slots = slots.clone();
        hs.push(
            std::thread::Builder::new()
                .name(format!("sim-worker-{w}"))
                .stack_size(BIG_STACK)
                .spawn(move || loop {
                    let i = next.fetch_add(1, Ordering::SeqCst);
                    if i >= n {
                        break;
                    }
                    let r = f(i);
                    slots.lock().unwrap()[i] = Some(r);
                })
                .expect("spawn worker"),
        );
    }
    for h in hs {
        if h.join().is_err() {
            eprintln!("HARNESS ERROR: a batch worker panicked");
            std::process::exit(2);
        }
    }
    let mut g = slots.lock().unwrap();
    g.drain(..).map(|x| x.expect("slot filled")).collect()
}

/// Run `f` on a brand-new big-stack thread: every simulated case starts with
/// pristine thread-local state, so what a case shows does not depend on which
/// cases the batch worker ran before it (and a replay in a fresh process sees
/// the same thing).
pub fn fresh_thread<T: Send>(f: impl FnOnce() -> T + Send) -> T {
    std::thread::scope(|s| {
        std::thread::Builder::new()
            .stack_size(BIG_STACK)
            .spawn_scoped(s, f)
            .expect("spawn case thread")
            .join()
            .unwrap_or_else(|_| {
                eprintln!("HARNESS ERROR: a case thread panicked");
                std::process::exit(2)
            })
    })
}

// ------------------------------------------------------------------ violations

#[derive(Clone, Debug)]
pub struct Violation {
    pub property: String,
    pub oracle: String,
    /// stable identity of *what* fails (used against known_findings.json)
    pub key: String,
    pub detail: String,
    pub seed: u64,
    /// self-contained replay description (explicit scenario + trace, no PRNG)
    pub replay: Value,
}

impl Violation {
    pub fn to_json(&self) -> Value {
        json!({
            "property": self.property,
            "oracle": self.oracle,
            "key": self.key,
            "detail": self.detail,
            "seed": self.seed.to_string(),
            "replay": self.replay,
        })
    }
}

pub fn write_replay(v: &Violation) -> PathBuf {
    let dir = out_dir().join("replays");
    let _ = std::fs::create_dir_all(&dir);
    let safe: String = v
        .key
        .chars()
        .map(|c| if c.is_ascii_alphanumeric() { c } else { '_' })
        .take(48)
        .collect();
    let path = dir.join(format!("{}-{}-{}.json", v.property, v.seed, safe));
    std::fs::write(&path, serde_json::to_string_pretty(&v.to_json()).unwrap()).expect("write replay");
    path
}

// --------------------------------------------------------------- known findings

#[derive(Clone, Debug, Default)]
pub struct Known {
    /// (property, key prefix, what)
    pub findings: Vec<(String, String, String)>,
}

pub fn load_known() -> Known {
    let p = verif_dir().join("known_findings.json");
    let mut k = Known::default();
    if let Ok(t) = std::fs::read_to_string(&p) {
        if let Ok(v) = serde_json::from_str::<Value>(&t) {
            if let Some(a) = v["findings"].as_array() {
                for f in a {
                    k.findings.push((
                        f["property"].as_str().unwrap_or("").to_string(),
                        f["key"].as_str().unwrap_or("\u{0}").to_string(),
                        f["what"].as_str().unwrap_or("").to_string(),
                    ));
                }
            }
        }
    }
    k
}

impl Known {
    /// A listed finding suppresses exactly the violations whose key equals its key.
    pub fn matches(&self, v: &Violation) -> Option<&(String, String, String)> {
        self.findings
            .iter()
            .find(|(p, k, _)| *p == v.property && *k == v.key)
    }
}

// -------------------------------------------------------------------- evidence

pub struct Evidence {
    pub property: String,
    pub tier: String,
    pub seed: u64,
    pub level: String,
    pub started: Instant,
    pub evaluations: u64,
    pub distinct: BTreeSet<u64>,
    pub rule: String,
    pub samples: Vec<Value>,
    pub steps: u64,
    pub faults: BTreeMap<String, u64>,
    pub probes: BTreeMap<String, u64>,
    pub extra: Map<String, Value>,
    pub assumptions: Vec<String>,
    pub violations: Vec<Violation>,
    pub known_hits: Vec<String>,
    pub exhaustive: Option<bool>,
}

impl Evidence {
    pub fn new(property: &str, tier: &str, level: &str) -> Evidence {
        Evidence {
            property: property.to_string(),
            tier: tier.to_string(),
            seed: verif_seed(),
            level: level.to_string(),
            started: Instant::now(),
            evaluations: 0,
            distinct: BTreeSet::new(),
            rule: String::new(),
            samples: vec![],
            steps: 0,
            faults: BTreeMap::new(),
            probes: BTreeMap::new(),
            extra: Map::new(),
            assumptions: vec![],
            violations: vec![],
            known_hits: vec![],
            exhaustive: None,
        }
    }
    pub fn fault(&mut self, k: &str, n: u64) {
        *self.faults.entry(k.to_string()).or_insert(0) += n;
    }
    pub fn probe(&mut self, k: &str, n: u64) {
        *self.probes.entry(k.to_string()).or_insert(0) += n;
    }
    pub fn merge_counts(&mut self, faults: &BTreeMap<String, u64>, probes: &BTreeMap<String, u64>) {
        for (k, v) in faults {
            self.fault(k, *v);
        }
        for (k, v) in probes {
            self.probe(k, *v);
        }
    }
    pub fn sample(&mut self, v: Value) {
        if self.samples.len() < 12 {
            self.samples.push(v);
        }
    }

    /// Writes evidence, prints KNOWN-FINDING / VIOLATION lines, returns exit code.
    pub fn finish(mut self) -> i32 {
        let wall = self.started.elapsed().as_secs_f64();
        let known = load_known();
        let mut fresh: Vec<&Violation> = vec![];
        let mut known_lines: BTreeSet<String> = BTreeSet::new();
        for v in &self.violations {
            if let Some((p, _k, what)) = known.matches(v) {
                known_lines.insert(format!("KNOWN-FINDING: property={} {}", p, what));
            } else {
                fresh.push(v);
            }
        }
        for l in &known_lines {
            println!("{l}");
            self.known_hits.push(l.clone());
        }
        let mut paths = vec![];
        // report each distinct key once
        let mut seen = BTreeSet::new();
        for v in &fresh {
            if !seen.insert(v.key.clone()) {
                continue;
            }
            if paths.len() >= 8 {
                break;
            }
            let p = write_replay(v);
            println!(
                "VIOLATION property={} replay={}",
                v.property,
                p.display()
            );
            println!("  oracle={} key={} seed={}", v.oracle, v.key, v.seed);
            println!("  {}", v.detail);
            paths.push(p.display().to_string());
        }
        let runs_per_hour = if wall > 0.0 {
            (self.evaluations as f64 / wall * 3600.0) as u64
        } else {
            0
        };
        let mut cov = Map::new();
        cov.insert("evaluations".into(), json!(self.evaluations));
        cov.insert("distinct_nontrivial".into(), json!(self.distinct.len()));
        cov.insert("rule".into(), json!(self.rule));
        cov.insert("samples".into(), Value::Array(self.samples.clone()));
        if let Some(e) = self.exhaustive {
            cov.insert("exhaustive".into(), json!(e));
        }
        cov.insert("simulated_runs_per_hour".into(), json!(runs_per_hour));
        cov.insert(
            "simulated_time_logical_steps".into(),
            json!(self.steps),
        );
        cov.insert("faults_fired".into(), json!(self.faults));
        cov.insert("probes".into(), json!(self.probes));
        for (k, v) in self.extra.iter() {
            cov.insert(k.clone(), v.clone());
        }
        cov.insert("replay_files".into(), json!(paths));
        cov.insert("known_findings_hit".into(), json!(self.known_hits));
        let ev = json!({
            "property_id": self.property,
            "tier": self.tier,
            "seed": self.seed,
            "level": self.level,
            "coverage": Value::Object(cov),
            "assumptions": self.assumptions,
            "wall_s": (wall * 1000.0).round() / 1000.0,
            "violations": fresh.len(),
        });
        let dir = out_dir().join("evidence");
        let _ = std::fs::create_dir_all(&dir);
        let path = dir.join(format!("{}.json", self.property));
        if let Err(e) = std::fs::write(&path, serde_json::to_string_pretty(&ev).unwrap()) {
            eprintln!("HARNESS ERROR: cannot write evidence {}: {e}", path.display());
            return 2;
        }
        println!(
            "{} {}: runs={} distinct_nontrivial={} steps={} violations={} known={} wall={:.1}s evidence={}",
            self.property,
            self.tier,
            self.evaluations,
            self.distinct.len(),
            self.steps,
            fresh.len(),
            known_lines.len(),
            wall,
            path.display()
        );
        if fresh.is_empty() {
            0
        } else {
            1
        }
    }
}

pub fn read_json(path: &Path) -> Result<Value, String> {
    let t = std::fs::read_to_string(path).map_err(|e| format!("{}: {e}", path.display()))?;
    serde_json::from_str(&t).map_err(|e| format!("{}: {e}", path.display()))
}

/// Source inventory of constructs that could carry cross-call or cross-thread
/// state in the crate (coverage information, never an alarm).
pub fn inventory() -> Vec<String> {
    let pats = [
        "static ",
        "thread_local!",
        "lazy_static",
        "OnceLock",
        "OnceCell",
        "LazyLock",
        "LazyCell",
        "Mutex",
        "RwLock",
        "Atomic",
        "RefCell",
        "Cell<",
        "UnsafeCell",
        "unsafe ",
        "RandomState",
        "std::env",
        "std::time",
        "std::thread",
        "std::sync",
        "std::fs",
        "std::process",
        "Rc<",
        "*mut ",
        "*const ",
    ];
    let mut hits = vec![];
    let root = repo_dir().join("src");
    let mut stack = vec![root];
    let mut files = vec![];
    while let Some(d) = stack.pop() {
        if let Ok(rd) = std::fs::read_dir(&d) {
            for e in rd.flatten() {
                let p = e.path();
                if p.is_dir() {
                    stack.push(p);
                } else if p.extension().map(|x| x == "rs").unwrap_or(false) {
                    files.push(p);
                }
            }
        }
    }
    files.sort();
    for p in files {
        if p.file_name().map(|n| n == "verif.rs").unwrap_or(false) {
            continue; // the guarded hook itself
        }
        if let Ok(t) = std::fs::read_to_string(&p) {
            for (ln, line) in t.lines().enumerate() {
                let l = line.trim_start();
                if l.starts_with("//") {
                    continue;
                }
                for pat in pats.iter() {
                    if l.contains(pat) {
                        // `'static` lifetimes and `static` inside strings are rare here; keep simple
                        if *pat == "static " && (l.contains("'static ") && !l.contains(" static ") && !l.starts_with("static ")) {
                            continue;
                        }
                        hits.push(format!("{}:{}: {}", p.display(), ln + 1, pat.trim()));
                        break;
                    }
                }
            }
        }
    }
    hits
}

// ------------------------------------------------- cases in child processes
//
// Every simulated case runs in a child process that executes a deterministic
// chunk of case indexes sequentially (each case on a fresh thread). A case's
// outcome is therefore a pure function of (VERIF_SEED, property, batch, chunk
// start, index) — also for code under test that keeps process-wide state — and
// a violation can always be replayed exactly: alone in a fresh process if it
// is self-contained, otherwise by re-running its chunk prefix.

#[derive(Clone, Debug, Default)]
pub struct CaseOut {
    pub index: u64,
    pub seed: u64,
    pub evals: u64,
    pub steps: u64,
    pub log: u64,
    pub distinct: Vec<u64>,
    pub faults: BTreeMap<String, u64>,
    pub probes: BTreeMap<String, u64>,
    pub sample: Option<Value>,
    /// (oracle key, detail, self-contained replay object of the unminimised case)
    pub violation: Option<(String, String, Value)>,
    pub extra: Value,
}

impl CaseOut {
    pub fn to_json(&self) -> Value {
        json!({
            "i": self.index, "seed": self.seed.to_string(), "evals": self.evals, "steps": self.steps,
            "log": self.log.to_string(), "distinct": self.distinct.iter().map(|d| d.to_string()).collect::<Vec<_>>(),
            "faults": self.faults, "probes": self.probes, "sample": self.sample,
            "violation": self.violation.as_ref().map(|(k, d, r)| json!({"okey": k, "detail": d, "replay": r})),
            "extra": self.extra,
        })
    }
    pub fn from_json(v: &Value) -> CaseOut {
        let m = |x: &Value| -> BTreeMap<String, u64> {
            x.as_object()
                .map(|o| o.iter().map(|(k, v)| (k.clone(), v.as_u64().unwrap_or(0))).collect())
                .unwrap_or_default()
        };
        CaseOut {
            index: v["i"].as_u64().unwrap_or(0),
            seed: v["seed"].as_str().and_then(|s| s.parse().ok()).unwrap_or(0),
            evals: v["evals"].as_u64().unwrap_or(0),
            steps: v["steps"].as_u64().unwrap_or(0),
            log: v["log"].as_str().and_then(|s| s.parse().ok()).unwrap_or(0),
            distinct: v["distinct"].as_array().map(|a| a.iter().filter_map(|d| d.as_str().and_then(|s| s.parse().ok())).collect()).unwrap_or_default(),
            faults: m(&v["faults"]),
            probes: m(&v["probes"]),
            sample: if v["sample"].is_null() { None } else { Some(v["sample"].clone()) },
            violation: if v["violation"].is_null() {
                None
            } else {
                Some((
                    v["violation"]["okey"].as_str().unwrap_or("").to_string(),
                    v["violation"]["detail"].as_str().unwrap_or("").to_string(),
                    v["violation"]["replay"].clone(),
                ))
            },
            extra: v["extra"].clone(),
        }
    }
}

fn self_exe(profile_dev: bool) -> String {
    if profile_dev {
        if let Ok(p) = std::env::var("SIM_DEV") {
            return p;
        }
    }
    if !cfg!(debug_assertions) || profile_dev {
        // same binary as the one running
    }
    std::env::current_exe().expect("current_exe").display().to_string()
}

/// Child side: `espada-sim cases <prop> <batch> <first> <count> <tier>`.
pub fn cases_child_main(args: &[String], f: &(dyn Fn(&str, &str, &str, u64) -> CaseOut + Sync)) -> i32 {
    if args.len() < 7 {
        eprintln!("usage: cases <prop> <batch> <first> <count> <tier>");
        return 2;
    }
    let (prop, batch, tier) = (args[2].as_str(), args[3].as_str(), args[6].as_str());
    let first: u64 = args[4].parse().unwrap_or(0);
    let count: u64 = args[5].parse().unwrap_or(0);
    use std::io::Write;
    let out = std::io::stdout();
    for i in first..first + count {
        let r = fresh_thread(|| f(prop, batch, tier, i));
        let mut o = out.lock();
        let _ = writeln!(o, "CASE {}", r.to_json());
        let _ = o.flush();
    }
    0
}

/// Wall-clock limit for one chunk of cases (the only clock the case runner reads; it
/// cannot fire on a chunk that finishes). Chunks are sized to take seconds.
pub fn chunk_watchdog_secs() -> u64 {
    std::env::var("VERIF_CHUNK_WATCHDOG").ok().and_then(|s| s.parse().ok()).unwrap_or(300)
}

static WATCHDOG_KILLS: AtomicUsize = AtomicUsize::new(0);

pub struct ChunkResult {
    pub cases: Vec<CaseOut>,
    /// the child ended without reporting every case: (index of the case in flight, how it ended)
    pub died: Option<(u64, String)>,
}

pub fn run_chunk(prop: &str, batch: &str, first: u64, count: u64, tier: &str, dev: bool) -> ChunkResult {
    let bin = self_exe(dev);
    // once two chunks of this process's batches were killed by the watchdog, further
    // chunks are not started (each would cost a full watchdog period): the kills are
    // reported as violations, the rest as not run
    if WATCHDOG_KILLS.load(Ordering::SeqCst) >= 2 {
        return ChunkResult { cases: vec![], died: None };
    }
    // a chunk that has not finished after the watchdog period is killed (a deadlock or
    // endless loop in the code under test); what it had reported so far is kept
    let child = std::process::Command::new(&bin)
        .args(["cases", prop, batch, &first.to_string(), &count.to_string(), tier])
        .stdin(std::process::Stdio::null())
        .stdout(std::process::Stdio::piped())
        .stderr(std::process::Stdio::inherit())
        .spawn();
    let mut child = match child {
        Ok(c) => c,
        Err(e) => {
            eprintln!("HARNESS ERROR: cannot start {bin}: {e}");
            std::process::exit(2);
        }
    };
    let mut stdout = child.stdout.take().expect("piped stdout");
    let reader = std::thread::spawn(move || {
        use std::io::Read;
        let mut buf = Vec::new();
        let _ = stdout.read_to_end(&mut buf);
        buf
    });
    let limit = std::time::Duration::from_secs(chunk_watchdog_secs());
    let started = Instant::now();
    let mut timed_out = false;
    let status = loop {
        match child.try_wait() {
            Ok(Some(st)) => break st,
            Ok(None) => {
                if started.elapsed() > limit {
                    timed_out = true;
                    WATCHDOG_KILLS.fetch_add(1, Ordering::SeqCst);
                    let _ = child.kill();
                    break child.wait().expect("wait after kill");
                }
                std::thread::sleep(std::time::Duration::from_millis(20));
            }
            Err(e) => {
                eprintln!("HARNESS ERROR: waiting for {bin}: {e}");
                std::process::exit(2);
            }
        }
    };
    let bytes = reader.join().unwrap_or_default();
    struct Out {
        stdout: Vec<u8>,
        status: std::process::ExitStatus,
    }
    let out = Out { stdout: bytes, status };
    let text = String::from_utf8_lossy(&out.stdout);
    let mut cases = vec![];
    for l in text.lines() {
        if let Some(j) = l.strip_prefix("CASE ") {
            if let Ok(v) = serde_json::from_str::<Value>(j) {
                cases.push(CaseOut::from_json(&v));
            }
        }
    }
    let died = if (cases.len() as u64) < count {
        Some((
            first + cases.len() as u64,
            if timed_out { format!("no result within {} s (killed by the watchdog: deadlock or endless loop)", chunk_watchdog_secs()) } else { format!("{}", out.status) },
        ))
    } else {
        None
    };
    if died.is_some() && !timed_out && out.status.code() == Some(2) {
        eprintln!("HARNESS ERROR: case child reported a harness error ({prop} {batch} {first}+{count})");
        std::process::exit(2);
    }
    ChunkResult { cases, died }
}

/// Run cases 0..n of a batch in chunked children, in parallel; results in index order.
pub fn run_batch(prop: &str, batch: &str, n: u64, chunk: u64, tier: &str, dev: bool) -> Vec<ChunkResult> {
    run_batch_par(prop, batch, n, chunk, tier, dev, workers())
}

/// As `run_batch`, with at most `par` children at a time (batches whose cases
/// are themselves heavily threaded).
pub fn run_batch_par(prop: &str, batch: &str, n: u64, chunk: u64, tier: &str, dev: bool, par: usize) -> Vec<ChunkResult> {
    let nchunks = ((n + chunk - 1) / chunk) as usize;
    let (prop, batch, tier) = (prop.to_string(), batch.to_string(), tier.to_string());
    par_map(nchunks, par.min(workers()).max(1), move |ci| {
        let first = ci as u64 * chunk;
        let count = chunk.min(n - first);
        run_chunk(&prop, &batch, first, count, &tier, dev)
    })
}

/// Evaluate one self-contained replay object in a fresh process:
/// `espada-sim eval <prop>` with the object on stdin → Some((key, detail)) if it violates.
pub fn eval_in_child(prop: &str, replay: &Value, dev: bool) -> Option<(String, String)> {
    use std::io::Write;
    let bin = self_exe(dev);
    let mut child = std::process::Command::new(&bin)
        .args(["eval", prop])
        .stdin(std::process::Stdio::piped())
        .stdout(std::process::Stdio::piped())
        .stderr(std::process::Stdio::null())
        .spawn()
        .ok()?;
    {
        let mut sin = child.stdin.take()?;
        let _ = writeln!(sin, "{}", replay);
    }
    let out = child.wait_with_output().ok()?;
    let text = String::from_utf8_lossy(&out.stdout);
    for l in text.lines() {
        if let Some(j) = l.strip_prefix("EVAL ") {
            let v: Value = serde_json::from_str(j).ok()?;
            if v["key"].is_null() {
                return None;
            }
            return Some((v["key"].as_str()?.to_string(), v["detail"].as_str().unwrap_or("").to_string()));
        }
    }
    // the evaluating process died: that is a reproducible outcome of this input
    Some(("process_died".to_string(), format!("evaluating process ended with {}", out.status)))
}

/// Child side of `eval`: `check` maps a replay object to an oracle key.
pub fn eval_child_main(check: &(dyn Fn(&Value) -> Option<(String, String)> + Sync)) -> i32 {
    let mut line = String::new();
    if std::io::stdin().read_line(&mut line).is_err() {
        return 2;
    }
    let v: Value = match serde_json::from_str(&line) {
        Ok(v) => v,
        Err(_) => return 2,
    };
    let r = fresh_thread(|| check(&v));
    match r {
        Some((k, d)) => println!("EVAL {}", json!({"key": k, "detail": d})),
        None => println!("EVAL {}", json!({"key": null})),
    }
    0
}

impl Evidence {
    pub fn merge_case(&mut self, c: &CaseOut) {
        self.evaluations += c.evals;
        self.steps += c.steps;
        for d in &c.distinct {
            self.distinct.insert(*d);
        }
        self.merge_counts(&c.faults, &c.probes);
    }
}

/// Turn a violating case into a replayable Violation:
/// 1. if the case reproduces alone in a fresh process, minimise it there
///    (`minimise` gets a predicate that evaluates candidates in fresh processes);
/// 2. otherwise the replay is the chunk prefix that led to it (shortest suffix
///    of the prefix that still reproduces).
#[allow(clippy::too_many_arguments)]
pub fn settle_violation(
    prop: &str,
    batch: &str,
    tier: &str,
    dev: bool,
    chunk_first: u64,
    case: &CaseOut,
    minimise: &dyn Fn(&Value, &str, &dyn Fn(&Value) -> bool) -> (Value, usize),
    key_of: &dyn Fn(&str, &Value) -> String,
) -> Violation {
    let (okey, detail, replay) = case.violation.clone().unwrap();
    if okey.starts_with("native") || okey.starts_with("machine") {
        // found under an OS-decided thread schedule: the replay re-runs the same seeded
        // workload (several attempts) but by its nature may not fail again
        return Violation {
            property: prop.to_string(),
            oracle: okey.clone(),
            key: key_of(&okey, &replay),
            detail,
            seed: case.seed,
            replay,
        };
    }
    let alone = eval_in_child(prop, &replay, dev);
    if alone.as_ref().map(|(k, _)| *k == okey).unwrap_or(false) {
        let ok2 = okey.clone();
        let p = prop.to_string();
        let fails = move |cand: &Value| -> bool { eval_in_child(&p, cand, dev).map(|(k, _)| k == ok2).unwrap_or(false) };
        let (mut min, tried) = minimise(&replay, &okey, &fails);
        let mut fin = eval_in_child(prop, &min, dev);
        if !fin.as_ref().map(|(k, _)| *k == okey).unwrap_or(false) {
            // never report a minimised description that does not itself reproduce
            min = replay.clone();
            fin = alone.clone();
        }
        let detail = fin.map(|x| x.1).unwrap_or(detail);
        min["shrink_candidates"] = json!(tried);
        min["found_in"] = json!(format!("{batch} case {}", case.index));
        if dev {
            min["profile"] = json!("dev");
        }
        return Violation {
            property: prop.to_string(),
            oracle: okey.clone(),
            key: key_of(&okey, &min),
            detail,
            seed: case.seed,
            replay: min,
        };
    }
    // depends on what the process did before: replay the chunk prefix
    let j = case.index;
    let mut start = chunk_first;
    let mut len = 2u64;
    while j + 1 >= chunk_first + len && len <= 64 {
        let s = j + 1 - len;
        let r = run_chunk(prop, batch, s, len, tier, dev);
        if r.cases.last().and_then(|c| c.violation.as_ref()).map(|v| v.0 == okey).unwrap_or(false) {
            start = s;
            break;
        }
        len *= 2;
    }
    let mut rj = json!({"kind": "chunk", "batch": batch, "first": start, "upto": j, "tier": tier, "expected_oracle": okey});
    if dev {
        rj["profile"] = json!("dev");
    }
    Violation {
        property: prop.to_string(),
        oracle: okey.clone(),
        key: format!("{okey}:history:{batch}:{start}..={j}"),
        detail: format!("{detail} — not reproducible from this case alone in a fresh process: it depends on what the process executed before (cases {start}..={j} of batch '{batch}' replay it)"),
        seed: case.seed,
        replay: rj,
    }
}

/// Replay of a `chunk` replay object: re-run the prefix in a fresh child.
pub fn replay_chunk(prop: &str, r: &Value) -> Option<(String, String)> {
    let batch = r["batch"].as_str()?;
    let first = r["first"].as_u64()?;
    let upto = r["upto"].as_u64()?;
    let tier = r["tier"].as_str().unwrap_or("quick");
    let dev = r["profile"].as_str() == Some("dev");
    let res = run_chunk(prop, batch, first, upto - first + 1, tier, dev);
    let pre = if dev { "dev:" } else { "" };
    if let Some((i, how)) = res.died {
        return Some((format!("{pre}process_died:history:{batch}:{first}..={upto}"), format!("case {i}: child {how}")));
    }
    let last = res.cases.last()?;
    last.violation.as_ref().map(|(k, d, _)| (format!("{pre}{k}:history:{batch}:{first}..={upto}"), d.clone()))
}
