//! C04 — scoped evaluators tile the enumeration.
//!
//! Simulated system: a coordinator cuts the position line into consecutive
//! scopes, workers (real scoped iterators) are advanced one next() at a time by
//! the seeded scheduler, crash and are resumed from checkpoints by scope(p,to),
//! and exhausted workers are polled again. Reference = the real unscoped run of
//! the same ranges value, restricted to the window (real-vs-real).

use crate::cards::*;
use crate::evalrun::*;
use crate::rng::{run_seed, Fold, Rng};
use crate::scenario::*;
use crate::shrink::{shrink_run, ShrinkOpts};
use crate::util::*;
use crate::world::*;
use serde_json::{json, Value};
use std::collections::BTreeMap;
use std::sync::Arc;

/// The unscoped run of a scenario, indexed by position.
pub struct URef {
    pub ys: Vec<(u8, u8, u64)>,
    /// start[i] = index in `ys` of the first yield at a position with index >= i
    pub start: Vec<u32>,
    /// false only when nothing can be compared (yields out of position order or off the deck)
    pub usable: bool,
    /// the unscoped run reached None normally
    pub complete: bool,
    /// windows whose end has an index <= this are fully known even if the
    /// unscoped run later panicked or ran away (NPOS when complete)
    pub known_upto: usize,
    pub why: String,
    pub zero_positions: u64,
}

pub fn uref(built: &BuiltScen) -> URef {
    let cap = 64 + 8 * built.scen.product().max(1) * (NPOS as u64 + 2);
    let (u, complete) = drain(&built.scen.flop, &built.ranges, &[], cap);
    let mut r = URef {
        ys: vec![],
        start: vec![0; NPOS + 2],
        usable: false,
        complete: false,
        known_upto: 0,
        why: String::new(),
        zero_positions: 0,
    };
    r.complete = complete && matches!(u.last(), Some(Out::End));
    if !complete {
        r.why = "unscoped run exceeded its step budget".into();
    } else if !r.complete {
        r.why = format!("unscoped run ended with {}", u.last().map(|o| o.short()).unwrap_or_default());
    }
    let mut prev: Option<Pos> = None;
    for o in u.iter() {
        if let Out::Yield { t, r: rv, h } = o {
            let p = (*t, *rv);
            if !is_board_pos(p) {
                r.why = format!("unscoped run yielded a board at {} (not a position)", pos_str(p));
                return r;
            }
            if let Some(q) = prev {
                if p < q {
                    r.why = "unscoped run is not in position order".into();
                    return r;
                }
            }
            prev = Some(p);
            r.ys.push((*t, *rv, *h));
        }
    }
    // index
    let mut j = 0usize;
    for i in 0..=NPOS {
        while j < r.ys.len() && pos_index((r.ys[j].0, r.ys[j].1)) < i {
            j += 1;
        }
        r.start[i] = j as u32;
    }
    r.start[NPOS + 1] = r.ys.len() as u32;
    for i in 0..NPOS {
        if r.start[i] == r.start[i + 1] {
            r.zero_positions += 1;
        }
    }
    r.usable = true;
    r.known_upto = if r.complete {
        NPOS
    } else {
        // everything strictly before the last position seen is complete
        r.ys.last().map(|y| pos_index((y.0, y.1))).unwrap_or(0)
    };
    r
}

/// The unscoped run only as far as position index `upto` (exclusive): for
/// scenarios whose whole enumeration is far too long to drain.
pub fn uref_prefix(built: &BuiltScen, upto: usize) -> URef {
    let mut r = URef { ys: vec![], start: vec![0; NPOS + 2], usable: false, complete: false, known_upto: 0, why: String::new(), zero_positions: 0 };
    let cap = built.scen.product().max(1).saturating_mul(upto as u64 + 1).saturating_mul(2).saturating_add(64);
    let mut st = match Stepper::new(&built.scen.flop, &built.ranges, &[]) {
        Ok(s) => s,
        Err(m) => {
            r.why = format!("unscoped construction panicked: {m}");
            return r;
        }
    };
    let mut calls = 0u64;
    let mut reached = 0usize; // highest position index seen
    let mut ended = false;
    while calls < cap {
        calls += 1;
        match st.step() {
            Out::Yield { t, r: rv, h } => {
                let p = (t, rv);
                if !is_board_pos(p) {
                    r.why = "unscoped run yielded a board off the deck".into();
                    return r;
                }
                let pi = pos_index(p);
                if pi < reached {
                    r.why = "unscoped run is not in position order".into();
                    return r;
                }
                reached = pi;
                if pi >= upto {
                    break;
                }
                r.ys.push((t, rv, h));
            }
            Out::End => {
                ended = true;
                break;
            }
            Out::Panic(m) => {
                r.why = format!("unscoped run panicked: {m}");
                break;
            }
        }
    }
    let mut j = 0usize;
    for i in 0..=NPOS {
        while j < r.ys.len() && pos_index((r.ys[j].0, r.ys[j].1)) < i {
            j += 1;
        }
        r.start[i] = j as u32;
    }
    r.start[NPOS + 1] = r.ys.len() as u32;
    r.usable = true;
    r.complete = ended;
    // an unscoped run that returned None is known everywhere; otherwise up to where we stopped
    r.known_upto = if ended { NPOS } else { reached.min(upto) };
    r
}

impl URef {
    pub fn comparable(&self, to: Pos) -> bool {
        self.usable && is_valid_pos(to) && pos_index(to) <= self.known_upto
    }
    pub fn window(&self, from: Pos, to: Pos) -> &[(u8, u8, u64)] {
        let a = self.start[pos_index(from)] as usize;
        let b = self.start[pos_index(to)] as usize;
        &self.ys[a..b.max(a)]
    }
}

/// Oracles 1-3 on what one worker produced for [from,to).
/// Returns (oracle name, detail) of the first broken clause.
/// Same showdowns position by position: the statement fixes the order of
/// positions, not the order of showdowns inside one position.
fn same_per_position(got: &[(u8, u8, u64)], want: &[(u8, u8, u64)]) -> bool {
    if got.len() != want.len() {
        return false;
    }
    if got.windows(2).any(|w| (w[0].0, w[0].1) > (w[1].0, w[1].1)) {
        return false;
    }
    let mut a = got.to_vec();
    let mut b = want.to_vec();
    a.sort();
    b.sort();
    a == b
}

pub fn check_window(eff: &[Out], from: Pos, to: Pos, u: &URef) -> Option<(String, String)> {
    let want = u.window(from, to);
    let ey: Vec<(u8, u8, u64)> = eff
        .iter()
        .take_while(|o| matches!(o, Out::Yield { .. }))
        .map(|o| match o {
            Out::Yield { t, r, h } => (*t, *r, *h),
            _ => unreachable!(),
        })
        .collect();
    let i = ey.len();
    // fast path: exactly the unscoped run's sequence. Otherwise compare position by
    // position (the statement fixes the order of positions, not the order inside
    // one), and describe the first difference in that canonical order so that the
    // classification does not depend on harmless reorderings inside a position.
    if ey.as_slice() != want {
        if let Some(k) = (1..ey.len()).find(|k| (ey[*k].0, ey[*k].1) < (ey[*k - 1].0, ey[*k - 1].1)) {
            return Some((
                "position_order".into(),
                format!(
                    "scope {}..{}: yield #{k} is at {} after a yield at {}",
                    pos_str(from), pos_str(to), pos_str((ey[k].0, ey[k].1)), pos_str((ey[k - 1].0, ey[k - 1].1))
                ),
            ));
        }
        let mut a = ey.clone();
        let mut b = want.to_vec();
        a.sort();
        b.sort();
        if a != b {
            let mut k = 0;
            while k < a.len() && k < b.len() && a[k] == b[k] {
                k += 1;
            }
            let outside = |p: Pos| !is_board_pos(p) || p >= to || p < from;
            // is the first difference an extra showdown of ours, or one of U's we lack?
            let extra = k < a.len() && (k >= b.len() || a[k] < b[k]);
            if extra {
                let p = (a[k].0, a[k].1);
                let kind = if outside(p) { "outside_scope" } else { "window_refinement" };
                return Some((
                    kind.into(),
                    format!(
                        "scope {}..{}: a showdown at {} (digest {:x}) that the unscoped run restricted to the window does not have; {} yielded, {} in the window",
                        pos_str(from), pos_str(to), pos_str(p), a[k].2, a.len(), b.len()
                    ),
                ));
            }
            let p = (b[k].0, b[k].1);
            let got = eff.get(i).map(|o| o.short()).unwrap_or("nothing (never finished)".into());
            let kind = if matches!(eff.get(i), Some(Out::Panic(_))) { "panic" } else { "window_refinement" };
            return Some((
                kind.into(),
                format!(
                    "scope {}..{}: the showdown at {} (digest {:x}) of the unscoped run is missing; {} yielded, {} in the window, then {got}",
                    pos_str(from), pos_str(to), pos_str(p), b[k].2, a.len(), b.len()
                ),
            ));
        }
    }
    // exhaustion and stickiness
    match eff.get(i) {
        Some(Out::End) => {}
        Some(Out::Panic(m)) => {
            return Some(("panic".into(), format!("scope {}..{}: panicked instead of finishing: {m}", pos_str(from), pos_str(to))));
        }
        Some(o) => {
            return Some(("window_refinement".into(), format!("scope {}..{}: expected None, got {}", pos_str(from), pos_str(to), o.short())));
        }
        None => {
            return Some(("no_termination".into(), format!("scope {}..{}: never returned None within the step budget", pos_str(from), pos_str(to))));
        }
    }
    for (k, o) in eff[i + 1..].iter().enumerate() {
        if !matches!(o, Out::End) {
            return Some((
                "sticky_exhaustion".into(),
                format!(
                    "scope {}..{}: poll #{} after the first None returned {}",
                    pos_str(from), pos_str(to), k + 1, o.short()
                ),
            ));
        }
    }
    None
}

pub struct C04Result {
    pub key: Option<(String, String)>,
    pub skipped: Option<String>,
    pub next_calls: u64,
    pub faults: BTreeMap<String, u64>,
    pub probes: BTreeMap<String, u64>,
    pub trace_hash: u64,
    pub states: usize,
    pub log: u64,
}

fn chain_tiles(specs: &[TaskSpec]) -> bool {
    if specs.is_empty() {
        return false;
    }
    if specs[0].from() != FIRST || specs[specs.len() - 1].to() != TERMINAL {
        return false;
    }
    for i in 1..specs.len() {
        if specs[i].from() != specs[i - 1].to() {
            return false;
        }
    }
    specs.iter().all(|s| s.from() <= s.to())
}

/// Execute an explicit run on one scenario and apply all C04 oracles.
pub fn check_run(run: &Run, shared: Option<(&BuiltScen, &URef)>) -> C04Result {
    let built_local;
    let u_local;
    let (built, u): (&BuiltScen, &URef) = match shared {
        Some(x) => x,
        None => {
            built_local = BuiltScen {
                scen: run.scens[0].clone(),
                ranges: Arc::new(run.scens[0].build_ranges()),
            };
            u_local = uref(&built_local);
            (&built_local, &u_local)
        }
    };
    let mut res = C04Result {
        key: None,
        skipped: None,
        next_calls: 0,
        faults: BTreeMap::new(),
        probes: BTreeMap::new(),
        trace_hash: 0,
        states: 0,
        log: 0,
    };
    if !u.usable {
        // the unscoped run itself is off the position line (C02's business), so nothing
        // can be compared with it — but the statement also *defines* the positions
        // (deck order: ace to deuce, spade heart diamond club), so a scoped worker must
        // still only yield boards that lie inside its own [from, to), in position order
        let mut all = vec![built.clone()];
        for sc in run.scens.iter().skip(1) {
            all.push(BuiltScen { scen: sc.clone(), ranges: Arc::new(sc.build_ranges()) });
        }
        let mut w = World::with_built(all, &run.specs, run.execs);
        w.drain_cap = 64 + 8 * built.scen.product().max(1) * (NPOS as u64 + 2);
        w.run_all(&run.steps);
        w.finish_all();
        res.next_calls = w.next_calls;
        for (ti, t) in w.tasks.iter().enumerate() {
            let (from, to) = (t.spec.from(), t.spec.to());
            let mut prev: Option<Pos> = None;
            for o in t.effective() {
                if let Out::Yield { t: a, r: b, .. } = o {
                    let p = (a, b);
                    if !is_board_pos(p) || p < from || p >= to {
                        res.key = Some((
                            "outside_scope".into(),
                            format!("task {ti}: scope {}..{}: a board at {} (positions as the statement defines them: unseen cards ace to deuce, spade heart diamond club); the unscoped run is unusable as a reference ({})", pos_str(from), pos_str(to), pos_str(p), u.why),
                        ));
                        return res;
                    }
                    if prev.map(|q| p < q).unwrap_or(false) {
                        res.key = Some(("position_order".into(), format!("task {ti}: scope {}..{}: a board at {} after one at {}", pos_str(from), pos_str(to), pos_str(p), pos_str(prev.unwrap()))));
                        return res;
                    }
                    prev = Some(p);
                }
            }
        }
        res.skipped = Some(u.why.clone());
        return res;
    }
    // scenario 0 is the reference; further scenarios of a run are the *same
    // contents built along other histories* (other table layouts): a worker given
    // such a copy must still produce the reference's showdowns position by position
    let mut builts = vec![built.clone()];
    for sc in run.scens.iter().skip(1) {
        builts.push(BuiltScen { scen: sc.clone(), ranges: Arc::new(sc.build_ranges()) });
    }
    if builts.len() > 1 {
        *res.probes.entry("runs_with_workers_on_differently_built_equal_ranges".into()).or_insert(0) += 1;
    }
    let mut w = World::with_built(builts, &run.specs, run.execs);
    w.drain_cap = 64 + 8 * built.scen.product().max(1) * (NPOS as u64 + 2);
    w.run_all(&run.steps);
    w.finish_all();
    res.next_calls = w.next_calls;
    res.faults = w.faults.clone();
    res.trace_hash = w.trace_hash();
    res.states = w.state_hashes.len();
    res.log = w.log.get();
    let mut probe = |k: &str| *res.probes.entry(k.to_string()).or_insert(0) += 1;
    for t in &w.tasks {
        let (f, to) = (t.spec.from(), t.spec.to());
        if f.1 == 48 {
            probe("scope_starts_at_row_end");
        }
        if f.1 == f.0 + 1 {
            probe("scope_starts_at_row_start");
        }
        if f == (47, 48) {
            probe("scope_starts_at_47_48");
        }
        if to == TERMINAL {
            probe("scope_ends_at_terminal");
        }
        if f == to {
            probe("empty_scope");
        }
        if f.0 == to.0 && f != to {
            probe("scope_inside_one_row");
        }
        if f.0 < to.0 {
            probe("scope_crosses_rollover");
        }
        for inc in t.incs.iter().filter(|i| i.crashed) {
            if inc.outs.is_empty() {
                probe("crash_before_first_yield");
            } else if let Some(Out::Yield { t: lt, r: lr, .. }) = inc.outs.last() {
                let p = (*lt, *lr);
                if is_board_pos(p) {
                    let pi = pos_index(p);
                    let last_of_pos = u.start[pi + 1] as usize;
                    let firsts = u.start[pi] as usize;
                    let cnt_here = inc.outs.iter().rev().take_while(|o| matches!(o, Out::Yield{t:a,r:b,..} if (*a,*b)==p)).count();
                    if cnt_here == 1 {
                        probe("crash_after_first_yield_of_position");
                    }
                    if cnt_here == last_of_pos - firsts {
                        probe("crash_after_last_yield_of_position");
                    }
                    if p.1 == p.0 + 1 {
                        probe("crash_right_after_rollover");
                    }
                    if pi + 1 < NPOS && u.start[pi + 1] == u.start[pi + 2] {
                        probe("crash_next_to_all_blocked_position");
                    }
                }
            }
        }
        if t.incs.len() > 2 {
            probe("multiple_crashes_one_worker");
        }
    }
    if u.zero_positions > 0 {
        probe("scenario_has_positions_with_zero_showdowns");
    }
    for (ti, t) in w.tasks.iter().enumerate() {
        if !u.comparable(t.spec.to()) {
            *res.probes.entry("windows_skipped_reference_abnormal_there".into()).or_insert(0) += 1;
            continue;
        }
        let eff = t.effective();
        if let Some(a) = &t.anomaly {
            res.key = Some(("no_termination".into(), format!("task {ti}: {a}")));
            return res;
        }
        if let Some((k, d)) = check_window(&eff, t.spec.from(), t.spec.to(), u) {
            res.key = Some((k, format!("task {ti}: {d}")));
            return res;
        }
    }
    // 4. chain conservation / exactly-once
    if u.complete && chain_tiles(&run.specs) {
        let mut cat: Vec<(u8, u8, u64)> = vec![];
        for t in &w.tasks {
            for o in t.effective() {
                if let Out::Yield { t, r, h } = o {
                    cat.push((t, r, h));
                }
            }
        }
        *res.probes.entry("chains_checked".into()).or_insert(0) += 1;
        if cat != u.ys && !same_per_position(&cat, &u.ys) {
            res.key = Some((
                "chain_conservation".into(),
                format!("chain of {} scopes yields {} showdowns, the full run {}", run.specs.len(), cat.len(), u.ys.len()),
            ));
        }
    }
    res
}

// ------------------------------------------------------------------ generators

fn gen_pos(rng: &mut Rng) -> Pos {
    match rng.below(10) {
        0 => {
            let t = rng.below(48) as u8;
            (t, 48)
        }
        1 => {
            let t = rng.below(48) as u8;
            (t, t + 1)
        }
        2 => (47, 48),
        3 => FIRST,
        4 => {
            let t = rng.range(40, 47) as u8;
            (t, rng.range(t as u64 + 1, 48) as u8)
        }
        _ => pos_from_index(rng.usize_below(NPOS)),
    }
}

fn gen_cut(rng: &mut Rng) -> Pos {
    if rng.chance(1, 12) {
        TERMINAL
    } else {
        gen_pos(rng)
    }
}

fn gen_chain(rng: &mut Rng) -> Vec<(Pos, Pos)> {
    let m = match rng.below(4) {
        0 => 1,
        1 => 2,
        2 => rng.range(3, 6),
        _ => rng.range(2, 24),
    } as usize;
    let mut cuts: Vec<Pos> = (0..m.saturating_sub(1)).map(|_| gen_cut(rng)).collect();
    // some exactly repeated cuts (empty scopes) and adjacent cuts
    if !cuts.is_empty() && rng.chance(1, 3) {
        let c = *rng.pick(&cuts);
        cuts.push(c);
        if c != TERMINAL && rng.chance(1, 2) {
            cuts.push(succ(c));
        }
    }
    cuts.sort();
    let mut v = vec![];
    let mut prev = FIRST;
    for c in cuts {
        v.push((prev, c));
        prev = c;
    }
    v.push((prev, TERMINAL));
    v
}

fn gen_window(rng: &mut Rng) -> (Pos, Pos) {
    let a = gen_pos(rng);
    let b = match rng.below(6) {
        0 => a,
        1 => succ(a),
        2 => TERMINAL,
        3 => {
            // end of a's row / start of the next
            if rng.chance(1, 2) {
                (a.0, 48)
            } else if a.0 < 47 {
                (a.0 + 1, a.0 + 2)
            } else {
                TERMINAL
            }
        }
        _ => gen_cut(rng),
    };
    if a <= b {
        (a, b)
    } else {
        (b, a)
    }
}

fn gen_pre(rng: &mut Rng) -> Vec<(Pos, Pos)> {
    if !rng.chance(1, 4) {
        return vec![];
    }
    let n = if rng.chance(1, 5) { rng.range(3, 6) } else { rng.range(1, 2) };
    (0..n).map(|_| gen_window(rng)).collect()
}

struct Case {
    seed: u64,
    run: Run,
    res: C04Result,
    sample: Value,
    ntasks: usize,
}

fn gen_case(seed: u64, faults_on: bool, max_players: usize, small: bool) -> Case {
    let mut rng = Rng::new(seed);
    // real executor threads cost two context switches per step: few, small runs
    let execs = if rng.chance(1, 12) { rng.range(1, 3) as usize } else { 0 };
    let params = ScenParams {
        max_players,
        max_product: if execs > 0 { 4 } else if small { 6 } else { 48 },
        allow_zero_players: true,
        hash_seeds: true,
    };
    let mut scen = gen_scenario(&mut rng, &params);
    // now and then a seat holds nothing: the enumeration, scoped or not, is empty
    if !scen.players.is_empty() && rng.chance(1, 25) {
        let k = rng.usize_below(scen.players.len());
        scen.players[k].entries.clear();
    }
    let built = BuiltScen {
        scen: scen.clone(),
        ranges: Arc::new(scen.build_ranges()),
    };
    let u = uref(&built);
    let scopes: Vec<(Pos, Pos)> = if rng.chance(2, 3) {
        gen_chain(&mut rng)
    } else {
        (0..rng.range(1, 4)).map(|_| gen_window(&mut rng)).collect()
    };
    let mut specs: Vec<TaskSpec> = scopes
        .iter()
        .map(|s| TaskSpec {
            scen: 0,
            scope: Some(*s),
            pre: vec![],
            extra_polls: 0,
        })
        .collect();
    // the unscoped evaluator is the [first, terminal) window too
    if specs.len() == 1 && specs[0].scope == Some((FIRST, TERMINAL)) && rng.chance(1, 2) {
        specs[0].scope = None;
    }
    // one run in six hands some workers a differently built copy of the same ranges
    let mut scens = vec![scen.clone()];
    if !scen.players.is_empty() && rng.chance(1, 6) {
        for _ in 0..rng.range(1, 2) {
            let mut c = scen.clone();
            for p in c.players.iter_mut() {
                rng.shuffle(&mut p.entries);
                p.hash_seed = if rng.chance(1, 2) { rng.next_u64() | 1 } else { 0 };
                p.hint = if rng.chance(1, 2) { Some(*rng.pick(&[0usize, 3, 7, 28, 112, 448])) } else { None };
                p.how = if rng.chance(1, 3) { How::NoHint } else { How::Collect };
            }
            scens.push(c);
        }
        for s in specs.iter_mut() {
            s.scen = rng.usize_below(scens.len());
        }
    }
    if faults_on {
        for s in specs.iter_mut() {
            if s.scope.is_some() {
                s.pre = gen_pre(&mut rng);
            }
            if rng.chance(1, 3) {
                s.extra_polls = rng.range(1, 5) as u8;
            }
        }
    }
    let policy = *rng.pick(&POLICIES);
    let prod = scen.product().max(1);
    let cfg = SchedCfg {
        policy,
        crash_resume_pm: if faults_on && rng.chance(2, 3) { rng.range(1, 12) } else { 0 },
        restart_pm: if faults_on && rng.chance(1, 3) { rng.range(1, 5) } else { 0 },
        max_crashes: rng.range(1, 8),
        migrate: execs > 1,
        max_steps: 4 * (64 + 8 * prod * (NPOS as u64 + 2)) + 64 * specs.len() as u64,
    };
    let mut builts = vec![built.clone()];
    for sc in scens.iter().skip(1) {
        builts.push(BuiltScen { scen: sc.clone(), ranges: Arc::new(sc.build_ranges()) });
    }
    let mut w = World::with_built(builts, &specs, execs);
    w.drain_cap = 64 + 8 * prod * (NPOS as u64 + 2);
    w.track_states = false;
    schedule(&mut w, &mut rng, &cfg);
    let run = Run {
        scens: scens.clone(),
        specs,
        steps: w.trace.clone(),
        execs,
    };
    drop(w);
    let res = check_run(&run, Some((&built, &u)));
    let sample = json!({
        "scenario": scen.short(),
        "scopes": run.specs.iter().take(6).map(|s| format!("{}..{}{}", pos_str(s.from()), pos_str(s.to()), if s.pre.is_empty() {""} else {" (after other scope() calls)"})).collect::<Vec<_>>(),
        "tasks": run.specs.len(),
        "policy": format!("{:?}", policy),
        "executors": execs,
        "faults": res.faults,
        "trace_head": encode_steps(&run.steps).into_iter().take(12).collect::<Vec<_>>(),
    });
    let ntasks = run.specs.len();
    Case { seed, run, res, sample, ntasks }
}

fn scen_key(s: &Scenario) -> String {
    let mut f = Fold::new();
    f.add_str(&s.to_json().to_string());
    format!("{:08x}", f.get() as u32)
}

// ---------------------------------------------------------------------- sweeps

/// Drain one scoped evaluator directly (no world bookkeeping) and compare with
/// the window of U on the fly; `polls` extra next() calls after None.
fn direct_window(built: &BuiltScen, u: &URef, from: Pos, to: Pos, polls: u32) -> (u64, bool) {
    if !u.comparable(to) {
        return (0, true);
    }
    let want = u.window(from, to);
    let mut st = match Stepper::new(&built.scen.flop, &built.ranges, &[(from, to)]) {
        Ok(s) => s,
        Err(_) => return (0, false),
    };
    let mut calls = 0u64;
    let mut exact = true;
    let mut got: Vec<(u8, u8, u64)> = vec![];
    for (i, w) in want.iter().enumerate() {
        calls += 1;
        match st.step() {
            Out::Yield { t, r, h } => {
                if exact && (t, r, h) != *w {
                    // keep going: only the order inside a position may differ
                    exact = false;
                    got.extend_from_slice(&want[..i]);
                }
                if !exact {
                    got.push((t, r, h));
                }
            }
            _ => return (calls, false),
        }
    }
    if !exact && !same_per_position(&got, want) {
        return (calls, false);
    }
    for _ in 0..=polls {
        calls += 1;
        if st.step() != Out::End {
            return (calls, false);
        }
    }
    (calls, true)
}

pub const CONSUMER_KINDS: [&str; 14] = ["collect", "count", "last", "nth7", "fold", "skip_then_collect", "count_by_value", "last_by_value", "fold_by_value", "collect_by_value", "next_k_then_count_by_value", "next_k_then_fold_by_value", "next_k_then_last_by_value", "next_k_then_collect_by_value"];

/// The same window through a std consumer instead of bare next() calls: what
/// comes out must still be the window of U (an overridden count()/nth()/fold()
/// or a wrong size_hint-driven shortcut shows here). Returns None if it held.
fn consumer_window(built: &BuiltScen, u: &URef, from: Pos, to: Pos, kind: &str) -> Option<String> {
    if !u.comparable(to) {
        return None;
    }
    // reference for the order-sensitive consumers (last, nth, skip): the very same
    // scoped evaluator drained by plain next() calls — its own order, which the
    // window oracle relates to U position by position
    let own: Vec<(u8, u8, u64)>;
    let want: &[(u8, u8, u64)] = if matches!(kind, "last" | "nth7" | "skip_then_collect" | "last_by_value") || kind.starts_with("next_k_then_") {
        let (outs, complete) = drain(&built.scen.flop, &built.ranges, &[(from, to)], u.window(from, to).len() as u64 + 8);
        if !complete || !matches!(outs.last(), Some(Out::End)) {
            return None; // the plain drain itself misbehaves: the window oracle reports that
        }
        own = outs
            .iter()
            .filter_map(|o| match o {
                Out::Yield { t, r, h } => Some((*t, *r, *h)),
                _ => None,
            })
            .collect();
        &own
    } else {
        u.window(from, to)
    };
    let mut st = match Stepper::new(&built.scen.flop, &built.ranges, &[(from, to)]) {
        Ok(s) => s,
        Err(m) => return Some(format!("construct: {m}")),
    };
    let dm = DeckMap::new(&built.scen.flop);
    if kind.ends_with("_by_value") {
        // the iterator's own count()/last()/fold()/collect() (any override included),
        // unbounded, so under a watchdog: the only wall-clock read of this check.
        // "next_k_then_*": a few plain next() calls first, stopping inside a position,
        // then the by-value consumer on what is left
        let mut it = st.it;
        let mut want_v: Vec<(u8, u8, u64)> = want.to_vec();
        let mut kind_s = kind.to_string();
        if let Some(rest) = kind.strip_prefix("next_k_then_") {
            let k = (1 + (pos_index(from) + pos_index(to)) % 5).min(want_v.len());
            for _ in 0..k {
                if guarded(|| it.next()).is_err() {
                    return None; // plain next() misbehaving is the window oracle's business
                }
            }
            want_v.drain(..k);
            kind_s = rest.to_string();
        }
        let flop = built.scen.flop;
        let (tx, rx) = std::sync::mpsc::channel::<Option<String>>();
        let _ = std::thread::Builder::new().stack_size(crate::util::BIG_STACK).spawn(move || {
            let dm = DeckMap::new(&flop);
            let dg = |sd: &espada::evaluator::Showdown| match digest(sd, &dm) {
                Out::Yield { t, r, h } => (t, r, h),
                _ => (255, 255, 0),
            };
            let r = guarded(move || -> Option<String> {
                match kind_s.as_str() {
                    "count_by_value" => {
                        let n = it.count();
                        (n != want_v.len()).then(|| format!("count() = {n}, the window has {}", want_v.len()))
                    }
                    "last_by_value" => {
                        let l = it.last().map(|s| dg(&s));
                        (l != want_v.last().cloned()).then(|| "last() is not the last showdown of the window".to_string())
                    }
                    "fold_by_value" => {
                        let n = it.fold(0usize, |a, _| a + 1);
                        (n != want_v.len()).then(|| format!("fold() visited {n}, the window has {}", want_v.len()))
                    }
                    _ => {
                        let v: Vec<(u8, u8, u64)> = it.map(|s| dg(&s)).collect();
                        (v != want_v && !same_per_position(&v, &want_v)).then(|| format!("collect() gave {} showdowns, the window has {}", v.len(), want_v.len()))
                    }
                }
            });
            let _ = tx.send(match r {
                Ok(x) => x,
                Err(m) => Some(format!("panicked: {m}")),
            });
        });
        return match rx.recv_timeout(std::time::Duration::from_secs(300)) {
            Ok(x) => x,
            Err(_) => Some("did not finish within the 300 s watchdog".to_string()),
        };
    }
    let it = &mut st.it;
    let cap = want.len() + 8;
    let dg = |sd: &espada::evaluator::Showdown| match digest(sd, &dm) {
        Out::Yield { t, r, h } => (t, r, h),
        _ => (255, 255, 0),
    };
    let r = guarded(|| -> Result<(), String> {
        match kind {
            "collect" => {
                let v: Vec<(u8, u8, u64)> = it.by_ref().take(cap).map(|s| dg(&s)).collect();
                if v != want && !same_per_position(&v, want) {
                    return Err(format!("collect() gave {} showdowns, the window has {}", v.len(), want.len()));
                }
            }
            "count" => {
                let n = it.by_ref().take(cap).count();
                if n != want.len() {
                    return Err(format!("count() = {n}, the window has {}", want.len()));
                }
            }
            "last" => {
                let l = it.by_ref().take(cap).last().map(|s| dg(&s));
                if l != want.last().cloned() {
                    return Err("last() is not the last showdown of the window".to_string());
                }
            }
            "nth7" => {
                let mut i = 6usize;
                loop {
                    let got = it.nth(6).map(|s| dg(&s));
                    let exp = want.get(i).cloned();
                    if got != exp {
                        return Err(format!("nth(6) stride reached element {i}: got {:?}, the window has {:?}", got.map(|x| (x.0, x.1)), exp.map(|x| (x.0, x.1))));
                    }
                    if got.is_none() || i > cap {
                        break;
                    }
                    i += 7;
                }
            }
            "fold" => {
                let n = it.by_ref().take(cap).fold(0usize, |a, _| a + 1);
                if n != want.len() {
                    return Err(format!("fold() visited {n}, the window has {}", want.len()));
                }
            }
            _ => {
                let k = want.len() / 2;
                let v: Vec<(u8, u8, u64)> = it.by_ref().skip(k).take(cap).map(|s| dg(&s)).collect();
                if v != want[k..] && !(k == 0 && same_per_position(&v, want)) {
                    return Err(format!("skip({k}) then collect gave {} showdowns, the window has {} left", v.len(), want.len() - k));
                }
            }
        }
        Ok(())
    });
    match r {
        Ok(Ok(())) => {}
        Ok(Err(d)) => return Some(d),
        Err(m) => return Some(format!("panicked: {m}")),
    }
    // and afterwards it stays exhausted
    match st.step() {
        Out::End => None,
        o => Some(format!("after {kind} drained it, next() returned {}", o.short())),
    }
}

fn window_run(scen: &Scenario, from: Pos, to: Pos, polls: u8) -> Run {
    Run {
        scens: vec![scen.clone()],
        specs: vec![TaskSpec {
            scen: 0,
            scope: Some((from, to)),
            pre: vec![],
            extra_polls: polls,
        }],
        steps: vec![Step { task: 0, exec: INLINE, op: Op::Drain }],
        execs: 0,
    }
}

fn fixed_scenarios(vs: u64, quick: bool) -> Vec<(String, Scenario)> {
    let one = 1.0f32.to_bits();
    let half = 0.5f32.to_bits();
    let mut v = vec![
        (
            "0-player".to_string(),
            Scenario { flop: [3 * 4 + 1, 5 * 4 + 2, 12 * 4 + 3], players: vec![] },
        ),
        (
            "2-player".to_string(),
            Scenario {
                flop: [2, 17, 40],
                players: vec![
                    RangeRecipe::simple(vec![(0, 1, one), (0, 4, half), (5, 9, one)]),
                    RangeRecipe::simple(vec![(1, 3, one), (8, 12, half), (48, 51, one)]),
                ],
            },
        ),
        (
            // combos that share a card with the flop (every deal of theirs is rejected by
            // Showdown::new, not by the evaluator's own used-card test)
            "flop-collision".to_string(),
            Scenario {
                flop: [0, 6, 27],
                players: vec![
                    RangeRecipe::simple(vec![(0, 4, one), (1, 5, one), (6, 10, half), (2, 3, one)]),
                    RangeRecipe::simple(vec![(8, 12, one), (27, 31, one), (13, 17, half)]),
                ],
            },
        ),
        (
            "1-player".to_string(),
            Scenario { flop: [0, 5, 51], players: vec![RangeRecipe::simple(vec![(1, 2, one), (49, 50, half)])] },
        ),
    ];
    if !quick {
        let mut rng = Rng::new(run_seed(vs, "C04", "fixed", 0));
        for i in 0..3 {
            let s = gen_scenario(
                &mut rng,
                &ScenParams { max_players: 3, max_product: 16, allow_zero_players: false, hash_seeds: true },
            );
            v.push((format!("random-{i}"), s));
        }
    }
    v
}

/// What one exploration covers, derived from the tier string ("quick",
/// "thorough", and the reduced "quick/dev", "thorough/dev" run by the
/// dev-profile binary).
#[derive(Clone, Copy)]
struct Plan {
    quick: bool,
    dev: bool,
    all_pairs: bool,
    extra_ends: usize,
    nruns: u64,
    max_players: usize,
}

fn plan_for(tier: &str) -> Plan {
    let quick = tier.starts_with("quick");
    if tier.ends_with("/dev") {
        Plan { quick, dev: true, all_pairs: false, extra_ends: if quick { 1 } else { 6 }, nruns: if quick { 120 } else { 1500 }, max_players: 3 }
    } else {
        Plan { quick, dev: false, all_pairs: !quick, extra_ends: if quick { 24 } else { 64 }, nruns: if quick { 1500 } else { 100_000 }, max_players: if quick { 4 } else { 8 } }
    }
}

type Fixed = (BuiltScen, Arc<URef>);
static FIXED: std::sync::Mutex<Option<BTreeMap<String, Fixed>>> = std::sync::Mutex::new(None);

/// Fixed sweep scenario by name, built (with its unscoped reference) once per process.
fn fixed(tier: &str, name: &str) -> Option<Fixed> {
    let mut g = FIXED.lock().unwrap();
    let m = g.get_or_insert_with(BTreeMap::new);
    if let Some(x) = m.get(name) {
        return Some(x.clone());
    }
    let plan = plan_for(tier);
    let scen = fixed_scenarios(verif_seed(), plan.quick || plan.dev).into_iter().find(|(n, _)| n == name)?.1;
    let built = BuiltScen { scen: scen.clone(), ranges: Arc::new(scen.build_ranges()) };
    let u = Arc::new(uref(&built));
    m.insert(name.to_string(), (built.clone(), u.clone()));
    Some((built, u))
}

fn sweep_names(tier: &str) -> Vec<String> {
    let plan = plan_for(tier);
    fixed_scenarios(verif_seed(), plan.quick || plan.dev)
        .into_iter()
        .map(|(n, _)| n)
        .filter(|n| !(plan.dev && (n == "2-player" || n == "flop-collision")))
        .collect()
}

/// Crash points swept for a scenario: after every yield when the run is short,
/// else after the first, middle and last yield of every position.
fn crash_points(u: &URef) -> Vec<u64> {
    let total = u.start[u.known_upto] as u64;
    let mut ks: Vec<u64> = vec![];
    if total <= 1300 {
        ks.extend(0..=total);
    } else {
        for pi in 0..u.known_upto {
            let a = u.start[pi] as u64;
            let b = u.start[pi + 1] as u64;
            if b > a {
                ks.push(a + 1);
                ks.push(a + (b - a + 1) / 2);
                ks.push(b);
            }
        }
        ks.push(0);
        ks.sort();
        ks.dedup();
    }
    ks
}

const CRASH_GROUP: usize = 8;

fn to_replay(run: &Run) -> Value {
    let mut rj = run.to_json();
    rj["kind"] = json!("c04_run");
    rj
}

fn crash_run(scen: &Scenario, to: Pos, k: u64) -> Run {
    let mut steps: Vec<Step> = (0..k).map(|_| Step { task: 0, exec: INLINE, op: Op::Next }).collect();
    steps.push(Step { task: 0, exec: INLINE, op: Op::CrashResume });
    steps.push(Step { task: 0, exec: INLINE, op: Op::Drain });
    Run {
        scens: vec![scen.clone()],
        specs: vec![TaskSpec { scen: 0, scope: Some((FIRST, to)), pre: vec![], extra_polls: 1 }],
        steps,
        execs: 0,
    }
}

/// One case of a C04 batch:
///   plain | faults      — a seeded simulated run
///   win:<scenario>      — every swept window starting at position index i
///   crash:<scenario>    — crash points ks[i*8 .. i*8+8] of the scenario's line
pub fn case(batch: &str, tier: &str, i: u64) -> CaseOut {
    let vs = verif_seed();
    let plan = plan_for(tier);
    let mut out = CaseOut { index: i, seed: run_seed(vs, "C04", batch, i), ..Default::default() };
    if batch == "plain" || batch == "faults" {
        let c = gen_case(out.seed, batch == "faults", plan.max_players, plan.dev);
        out.evals = 1;
        out.steps = c.res.next_calls;
        out.log = c.res.log;
        out.faults = c.res.faults.clone();
        out.probes = c.res.probes.clone();
        let nf: u64 = c.res.faults.values().sum();
        *out.probes.entry("global_states_seen_sum_over_runs".into()).or_insert(0) += c.res.states as u64;
        out.extra = json!({"trace": c.res.trace_hash.to_string()});
        if c.res.skipped.is_some() {
            *out.probes.entry("seeded_runs_skipped_reference_abnormal".into()).or_insert(0) += 1;
            return out;
        }
        if c.ntasks >= 2 || nf > 0 {
            let mut f = Fold::new();
            f.add_str(&scen_key(&c.run.scens[0]));
            for s in &c.run.specs {
                f.add(pos_index_safe(s.from()) as u64);
                f.add(pos_index_safe(s.to()) as u64);
            }
            f.add(c.res.trace_hash);
            out.distinct.push(f.get());
        }
        if nf > 0 || c.ntasks > 2 {
            out.sample = Some(c.sample.clone());
        }
        if let Some((okey, detail)) = &c.res.key {
            out.violation = Some((okey.clone(), detail.clone(), to_replay(&c.run)));
        }
        return out;
    }
    if batch == "huge" {
        // positions x product of range sizes beyond 2^32: only the first positions are
        // drained, against a lazily computed prefix of the unscoped run
        let shapes: [(usize, usize); 5] = [(3, 154), (4, 50), (3, 200), (5, 22), (2, 1326)];
        let (np, k) = shapes[i as usize % shapes.len()];
        let mut rng = Rng::new(out.seed);
        let flop = gen_flop(&mut rng);
        let mut all = all_combos();
        let players: Vec<RangeRecipe> = (0..np)
            .map(|_| {
                rng.shuffle(&mut all);
                RangeRecipe::simple(all.iter().take(k).map(|c| (c.0, c.1, 1.0f32.to_bits())).collect())
            })
            .collect();
        let scen = Scenario { flop, players };
        let built = BuiltScen { scen: scen.clone(), ranges: Arc::new(scen.build_ranges()) };
        let u = uref_prefix(&built, 2);
        *out.probes.entry("huge_product_scenarios".into()).or_insert(0) += 1;
        if !u.usable {
            *out.probes.entry("sweep_cases_skipped_reference_abnormal".into()).or_insert(0) += 1;
            return out;
        }
        let mut lf = Fold::new();
        for (from, to) in [((0u8, 1u8), (0u8, 2u8)), ((0, 2), (0, 3)), ((0, 1), (0, 3)), ((0, 1), (0, 1))] {
            if !u.comparable(to) {
                continue;
            }
            let (c, ok) = direct_window(&built, &u, from, to, 1);
            out.evals += 1;
            out.steps += c;
            lf.add(c);
            lf.add(ok as u64);
            out.distinct.push(crate::rng::mix(out.seed, (pos_index(from) as u64) << 16 | pos_index(to) as u64));
            if !ok && out.violation.is_none() {
                let want = u.window(from, to).len();
                out.violation = Some((
                    "window_refinement".into(),
                    format!("{} ({} odometer states per position) scope {}..{}: differs from the unscoped run restricted to that window ({} showdowns there)", scen.short(), scen.product(), pos_str(from), pos_str(to), want),
                    json!({"kind":"c04_huge","scenario": scen.to_json(), "from": [from.0, from.1], "to": [to.0, to.1]}),
                ));
            }
        }
        out.log = lf.get();
        out.sample = Some(json!({"huge_product": scen.product(), "players": np, "combos_each": k, "windows": "first two positions"}));
        return out;
    }
    let (kind, name) = batch.split_once(':').unwrap_or((batch, ""));
    let Some((built, u)) = fixed(tier, name) else {
        eprintln!("unknown sweep scenario {name}");
        std::process::exit(2);
    };
    if !u.usable {
        *out.probes.entry("sweep_cases_skipped_reference_abnormal".into()).or_insert(0) += 1;
        return out;
    }
    let sk = {
        let mut f = Fold::new();
        f.add_str(&scen_key(&built.scen));
        f.get()
    };
    let mut lf = Fold::new();
    match kind {
        "win" => {
            let fi = i as usize;
            let from = pos_from_index(fi);
            let all_pairs = plan.all_pairs && (name == "0-player" || name == "1-player" || name == "2-player");
            let mut rng = Rng::new(crate::rng::mix(run_seed(vs, "C04", name, 1), fi as u64));
            let mut tos: Vec<usize> = vec![];
            if all_pairs {
                tos.extend(fi..=NPOS);
            } else {
                tos.push(fi);
                tos.push(fi + 1);
                tos.push(pos_index((from.0, 48)));
                tos.push((pos_index((from.0, 48)) + 1).min(NPOS));
                tos.push(NPOS);
                for _ in 0..plan.extra_ends {
                    tos.push(rng.range(fi as u64, NPOS as u64) as usize);
                }
                tos.sort();
                tos.dedup();
            }
            let mut consumer_runs = 0u64;
            let mut bad = 0u64;
            for ti in tos {
                let to = pos_from_index(ti);
                let (c, ok) = direct_window(&built, &u, from, to, 2);
                out.evals += 1;
                out.steps += c;
                lf.add(c);
                lf.add(ok as u64);
                if ti != fi {
                    out.distinct.push(crate::rng::mix(sk, ((fi as u64) << 16) | ti as u64));
                }
                if !ok {
                    bad += 1;
                    if out.violation.is_none() {
                        let run = window_run(&built.scen, from, to, 2);
                        if let Some((okey, detail)) = check_run(&run, Some((&built, &u))).key {
                            out.violation = Some((okey, detail, to_replay(&run)));
                        }
                    }
                }
                if (!all_pairs || (ti - fi) % 97 == 0) && (fi + ti) % 3 == 0 {
                    let kind = CONSUMER_KINDS[(fi * 7 + ti) % CONSUMER_KINDS.len()];
                    consumer_runs += 1;
                    out.evals += 1;
                    if let Some(d) = consumer_window(&built, &u, from, to, kind) {
                        bad += 1;
                        if out.violation.is_none() {
                            out.violation = Some((
                                format!("consumer_equivalence:{kind}"),
                                format!("{} | scope {}..{} drained with {kind}: {d}", built.scen.short(), pos_str(from), pos_str(to)),
                                json!({"kind":"c04_consumer","scenario": built.scen.to_json(), "from": [from.0, from.1], "to": [to.0, to.1], "consumer": kind}),
                            ));
                        }
                    }
                }
            }
            *out.probes.entry("windows_drained_through_std_consumers".into()).or_insert(0) += consumer_runs;
            if all_pairs {
                *out.probes.entry("all_pairs_windows".into()).or_insert(0) += out.evals - consumer_runs;
            }
            out.extra = json!({"mismatches": bad});
        }
        "crash" => {
            let ks = crash_points(&u);
            let sweep_to = pos_from_index(u.known_upto);
            let lo = (i as usize) * CRASH_GROUP;
            let mut bad = 0u64;
            for k in ks.iter().skip(lo).take(CRASH_GROUP) {
                let run = crash_run(&built.scen, sweep_to, *k);
                let r = check_run(&run, Some((&built, &u)));
                out.evals += 1;
                out.steps += r.next_calls;
                lf.add(r.log);
                *out.faults.entry("crash_resume".into()).or_insert(0) += 1;
                out.distinct.push(crate::rng::mix(sk ^ 0xC4A5, *k));
                for (a, b) in r.probes {
                    *out.probes.entry(a).or_insert(0) += b;
                }
                if let Some((okey, detail)) = r.key {
                    bad += 1;
                    if out.violation.is_none() {
                        out.violation = Some((okey, detail, to_replay(&run)));
                    }
                }
            }
            out.extra = json!({"mismatches": bad});
        }
        _ => {
            eprintln!("unknown C04 batch {batch}");
            std::process::exit(2);
        }
    }
    out.log = lf.get();
    out
}

pub fn eval(v: &Value) -> Option<(String, String)> {
    if v["kind"].as_str() == Some("c04_consumer") {
        let scen = Scenario::from_json(&v["scenario"]).ok()?;
        let g = |k: &str| -> Pos { (v[k][0].as_u64().unwrap_or(0) as u8, v[k][1].as_u64().unwrap_or(0) as u8) };
        let (from, to) = (g("from"), g("to"));
        let kind = v["consumer"].as_str().unwrap_or("collect").to_string();
        let built = BuiltScen { scen: scen.clone(), ranges: Arc::new(scen.build_ranges()) };
        let u = uref(&built);
        return consumer_window(&built, &u, from, to, &kind).map(|d| (format!("consumer_equivalence:{kind}"), d));
    }
    if v["kind"].as_str() == Some("c04_huge") {
        let scen = Scenario::from_json(&v["scenario"]).ok()?;
        let g = |k: &str| -> Pos { (v[k][0].as_u64().unwrap_or(0) as u8, v[k][1].as_u64().unwrap_or(0) as u8) };
        let (from, to) = (g("from"), g("to"));
        let built = BuiltScen { scen: scen.clone(), ranges: Arc::new(scen.build_ranges()) };
        let u = uref_prefix(&built, pos_index(to).max(1));
        if !u.comparable(to) {
            return None;
        }
        let (_, ok) = direct_window(&built, &u, from, to, 1);
        return if ok { None } else { Some(("window_refinement".into(), format!("{} scope {}..{} differs from the unscoped run restricted to that window", scen.short(), pos_str(from), pos_str(to)))) };
    }
    let run = Run::from_json(v).ok()?;
    check_run(&run, None).key
}

fn minimise_json(replay: &Value, _okey: &str, pred: &dyn Fn(&Value) -> bool) -> (Value, usize) {
    if replay["kind"].as_str() == Some("c04_consumer") || replay["kind"].as_str() == Some("c04_huge") {
        return (replay.clone(), 0);
    }
    let Ok(run) = Run::from_json(replay) else { return (replay.clone(), 0) };
    // every scenario of a C04 run must stay the same contents as scenario 0 (they
    // are differently built copies): a candidate that breaks this is not a valid run
    fn consistent(r: &Run) -> bool {
        let canon = |s: &Scenario| -> (Vec<u8>, Vec<Vec<(u8, u8, u32)>>) {
            (
                s.flop.to_vec(),
                s.players
                    .iter()
                    .map(|p| {
                        let mut m: BTreeMap<(u8, u8), u32> = BTreeMap::new();
                        for e in &p.entries {
                            m.insert((e.0, e.1), e.2);
                        }
                        m.into_iter().map(|(k, w)| (k.0, k.1, w)).collect()
                    })
                    .collect(),
            )
        };
        let c0 = canon(&r.scens[0]);
        r.scens.iter().all(|s| canon(s) == c0)
    }
    let fails = move |r: &Run| -> bool { consistent(r) && pred(&to_replay(r)) };
    let (min, tried) = shrink_run(
        run,
        &fails,
        ShrinkOpts { drop_tasks: true, drop_players: true, narrow_scopes: true, max_candidates: 300 },
    );
    (to_replay(&min), tried)
}

fn key_json(okey: &str, min: &Value) -> String {
    let prefix = if min["profile"].as_str() == Some("dev") { "dev:" } else { "" };
    if min["kind"].as_str() == Some("c04_consumer") || min["kind"].as_str() == Some("c04_huge") {
        let g = |k: &str| -> Pos { (min[k][0].as_u64().unwrap_or(0) as u8, min[k][1].as_u64().unwrap_or(0) as u8) };
        let sk = Scenario::from_json(&min["scenario"]).map(|s| scen_key(&s)).unwrap_or_default();
        return format!("{prefix}{okey}:{}..{}:{sk}", pos_str(g("from")), pos_str(g("to")));
    }
    match Run::from_json(min) {
        Ok(run) => {
            let scopes: Vec<String> = run.specs.iter().map(|s| format!("{}..{}", pos_str(s.from()), pos_str(s.to()))).collect();
            format!("{prefix}{okey}:{}:{}", scopes.join("+"), scen_key(&run.scens[0]))
        }
        Err(_) => format!("{prefix}{okey}"),
    }
}

fn describe(v: &mut Violation) {
    if let Ok(run) = Run::from_json(&v.replay) {
        let scopes: Vec<String> = run.specs.iter().map(|s| format!("{}..{}", pos_str(s.from()), pos_str(s.to()))).collect();
        v.detail = format!("{} | scopes {} | {}", run.scens[0].short(), scopes.join(" "), v.detail);
    }
    if v.replay["profile"].as_str() == Some("dev") {
        v.detail = format!("[dev profile] {}", v.detail);
        if !v.key.starts_with("dev:") {
            v.key = format!("dev:{}", v.key);
        }
    }
}

pub fn run(tier: &str) -> i32 {
    let vs = verif_seed();
    let mut ev = Evidence::new("C04", tier, "fault_enumeration");
    ev.rule = "sweeps: one evaluation per (scenario, from, to) window drained and compared with the unscoped run (a sample of them also through the std consumers), and per (scenario, crash point) crash+resume run; seeded runs: one evaluation per simulated run (chain of scopes or windows, seeded schedule, crash_resume/crash_restart/rescope/poll_after_end/migrate faults). distinct_nontrivial = distinct (scenario, from, to) windows with from<to, distinct crash points, and distinct (scenario, scope list, schedule trace) hashes of seeded runs that had >= 2 tasks or >= 1 fired fault. The release-profile exploration is followed by a reduced one run by the dev-profile binary (overflow checks and debug assertions on), whose counts are added".into();
    ev.assumptions = vec![
        "reference is the repository's own unscoped evaluator built from the same Vec<HandRange> value (real-vs-real): C04 is decided independently of whether the full enumeration itself is right (C02)".into(),
        "only valid positions and the terminal as scope bounds, from <= to (outside that the statement is silent)".into(),
        "the statement fixes the order of positions, not the order of showdowns inside one position: sequences are compared exactly first and per position as multisets if that fails".into(),
        "where the unscoped run panics or does not terminate, only windows ending before that point are compared; an unscoped run that is out of position order makes the scenario unusable (counted) — that is C08/C02 territory".into(),
        "flops and ranges are sampled, the scope/cut/crash dimension is swept; cases run in child processes, a deterministic chunk of case indexes per process, each case on a fresh thread".into(),
    ];
    let mut logfold = Fold::new();
    let mut traces: std::collections::BTreeSet<u64> = Default::default();
    let mut sweep_summary = vec![];
    for dev in [false, true] {
        let t: String = if dev { format!("{tier}/dev") } else { tier.to_string() };
        let plan = plan_for(&t);
        if dev && std::env::var("SIM_DEV").is_err() {
            eprintln!("HARNESS ERROR: SIM_DEV not set (run through ./check)");
            return 2;
        }
        let mut batches: Vec<(String, u64, u64)> = vec![]; // (batch, cases, chunk)
        for name in sweep_names(&t) {
            let Some((_, u)) = fixed(&t, &name) else { continue };
            if !u.usable {
                ev.probe("sweep_scenarios_skipped_reference_abnormal", 1);
                continue;
            }
            if !u.complete {
                ev.probe("sweep_reference_incomplete", 1);
            }
            let all_pairs = plan.all_pairs && (name == "0-player" || name == "1-player" || name == "2-player");
            batches.push((format!("win:{name}"), NPOS as u64, if all_pairs { 8 } else { 24 }));
            let ks = crash_points(&u).len();
            batches.push((format!("crash:{name}"), ((ks + CRASH_GROUP - 1) / CRASH_GROUP) as u64, 16));
            if all_pairs {
                ev.exhaustive = Some(false);
            }
        }
        if !dev {
            batches.push(("huge".into(), if plan.quick { 3 } else { 15 }, 1));
        }
        batches.push(("plain".into(), plan.nruns, if plan.quick { 8 } else { 64 }));
        batches.push(("faults".into(), plan.nruns, if plan.quick { 8 } else { 64 }));
        let mut dev_evals = 0u64;
        for (batch, n, chunk) in batches {
            let chunks = run_batch("C04", &batch, n, chunk, &t, dev);
            let mut b_evals = 0u64;
            let mut b_bad = 0u64;
            for (ci, ch) in chunks.iter().enumerate() {
                let chunk_first = ci as u64 * chunk;
                if let Some((i, how)) = &ch.died {
                    let mut rj = json!({"kind":"chunk","batch":batch,"first":chunk_first,"upto":i,"tier":t,"expected_oracle":"process_died"});
                    if dev {
                        rj["profile"] = json!("dev");
                    }
                    ev.violations.push(Violation {
                        property: "C04".into(),
                        oracle: "process_died".into(),
                        key: format!("{}process_died:history:{batch}:{chunk_first}..={i}", if dev { "dev:" } else { "" }),
                        detail: format!("the process driving the scoped evaluators ended with {how} at case {i} of batch '{batch}'{}", if dev { " [dev profile]" } else { "" }),
                        seed: vs,
                        replay: rj,
                    });
                }
                for c in &ch.cases {
                    ev.merge_case(c);
                    b_evals += c.evals;
                    b_bad += c.extra["mismatches"].as_u64().unwrap_or(0);
                    logfold.add(c.log);
                    if let Some(tr) = c.extra["trace"].as_str().and_then(|x| x.parse::<u64>().ok()) {
                        traces.insert(tr);
                    }
                    if let Some(sm) = &c.sample {
                        if ev.samples.len() < 8 {
                            ev.sample(sm.clone());
                        }
                    }
                    if c.violation.is_some() {
                        if ev.violations.len() < 8 {
                            let mut v = settle_violation("C04", &batch, &t, dev, chunk_first, c, &minimise_json, &key_json);
                            describe(&mut v);
                            ev.violations.push(v);
                        } else {
                            ev.probe("further_violations_not_minimised", 1);
                        }
                    }
                }
            }
            if batch.contains(':') {
                sweep_summary.push(json!({"batch": batch, "profile": if dev {"dev"} else {"release"}, "evaluations": b_evals, "mismatches": b_bad}));
            }
            if dev {
                dev_evals += b_evals;
            }
        }
        if dev {
            ev.fault("profile_dev", dev_evals);
        }
    }
    ev.extra.insert("sweeps".into(), json!(sweep_summary));
    ev.probe("distinct_schedule_traces", traces.len() as u64);
    ev.extra.insert("event_log_digest".into(), json!(format!("{:016x}", logfold.get())));
    ev.extra.insert("components".into(), json!({
        "real": ["FlopExhaustiveEvaluator::{new,scope,into_iter}", "iterator next() and the std consumers on it", "Showdown::new", "MadeHand", "HandRange collect/clone (hooked hasher)"],
        "stub": ["coordinator handing out scopes and checkpoints (simulator)"],
        "simulated": ["which worker advances next", "executor thread of each call", "crash/resume, restart, rescope, polls after exhaustion", "build profile (release binary + dev binary)"],
    }));
    ev.extra.insert("inventory_shared_state".into(), json!(inventory()));
    ev.finish()
}

fn pos_index_safe(p: Pos) -> usize {
    if is_valid_pos(p) {
        pos_index(p)
    } else {
        9999
    }
}

pub fn replay(v: &Value) -> Option<(String, String)> {
    let r = &v["replay"];
    let dev = r["profile"].as_str() == Some("dev");
    if r["kind"].as_str() == Some("chunk") {
        return replay_chunk("C04", r);
    }
    eval_in_child("C04", r, dev).map(|(k, d)| (key_json(&k, r), d))
}
