//! Harness-side card arithmetic, derived from the property text only:
//! cards are numbered rank-major ace..deuce and, within a rank, spade, heart,
//! diamond, club (code = rank*4 + suit, 0..52). A position is (t, r) with
//! t < r, indexes into the 49 cards left after removing the flop; the terminal
//! is (48, 49).

use espada::card::{Card, Rank, Suit};
use espada::hand_range::CardPair;

pub const RANKS: [Rank; 13] = [
    Rank::Ace,
    Rank::King,
    Rank::Queen,
    Rank::Jack,
    Rank::Ten,
    Rank::Nine,
    Rank::Eight,
    Rank::Seven,
    Rank::Six,
    Rank::Five,
    Rank::Four,
    Rank::Trey,
    Rank::Deuce,
];
pub const SUITS: [Suit; 4] = [Suit::Spade, Suit::Heart, Suit::Diamond, Suit::Club];
pub const RANK_CH: [char; 13] = [
    'A', 'K', 'Q', 'J', 'T', '9', '8', '7', '6', '5', '4', '3', '2',
];
pub const SUIT_CH: [char; 4] = ['s', 'h', 'd', 'c'];

pub fn card(code: u8) -> Card {
    Card::new(RANKS[(code / 4) as usize], SUITS[(code % 4) as usize])
}

pub fn code(c: &Card) -> u8 {
    (*c.rank() as u8) * 4 + (*c.suit() as u8)
}

pub fn card_str(code: u8) -> String {
    format!("{}{}", RANK_CH[(code / 4) as usize], SUIT_CH[(code % 4) as usize])
}

pub fn parse_card(s: &str) -> Option<u8> {
    let mut it = s.chars();
    let r = it.next()?;
    let u = it.next()?;
    if it.next().is_some() {
        return None;
    }
    let ri = RANK_CH.iter().position(|c| *c == r)?;
    let si = SUIT_CH.iter().position(|c| *c == u)?;
    Some((ri * 4 + si) as u8)
}

pub fn pair(a: u8, b: u8) -> CardPair {
    CardPair::new(card(a), card(b))
}

pub fn pair_codes(p: &CardPair) -> (u8, u8) {
    (code(&p[0]), code(&p[1]))
}

pub fn combo_str(a: u8, b: u8) -> String {
    format!("{}{}", card_str(a), card_str(b))
}

/// All 1326 combos (a < b) in code order.
pub fn all_combos() -> Vec<(u8, u8)> {
    let mut v = Vec::with_capacity(1326);
    for a in 0..52u8 {
        for b in (a + 1)..52u8 {
            v.push((a, b));
        }
    }
    v
}

/// The 49 unseen cards for a flop, in deck order.
pub fn deck_for(flop: &[u8; 3]) -> Vec<u8> {
    (0..52u8).filter(|c| !flop.contains(c)).collect()
}

pub type Pos = (u8, u8);
pub const FIRST: Pos = (0, 1);
pub const TERMINAL: Pos = (48, 49);
pub const NPOS: usize = 1176;

/// A position a board can sit at.
pub fn is_board_pos(p: Pos) -> bool {
    p.0 < p.1 && p.1 <= 48
}

/// A board position or the terminal: what the statements call a valid position.
pub fn is_valid_pos(p: Pos) -> bool {
    is_board_pos(p) || p == TERMINAL
}

pub fn succ(p: Pos) -> Pos {
    debug_assert!(is_board_pos(p));
    if p.1 < 48 {
        (p.0, p.1 + 1)
    } else {
        (p.0 + 1, p.0 + 2)
    }
}

/// Linear index of a valid position: 0..1176 for board positions, 1176 for the terminal.
pub fn pos_index(p: Pos) -> usize {
    debug_assert!(is_valid_pos(p));
    if p == TERMINAL {
        return NPOS;
    }
    let t = p.0 as usize;
    // rows before t have 48, 47, ... entries: sum_{k<t} (48 - k) = 48 t - t(t-1)/2
    let before: usize = t * 48 - t * t.saturating_sub(1) / 2;
    before + (p.1 as usize - t - 1)
}

pub fn pos_from_index(i: usize) -> Pos {
    debug_assert!(i <= NPOS);
    if i == NPOS {
        return TERMINAL;
    }
    let mut t = 0usize;
    let mut rem = i;
    loop {
        let row = 48 - t;
        if rem < row {
            return (t as u8, (t + 1 + rem) as u8);
        }
        rem -= row;
        t += 1;
    }
}

pub fn pos_str(p: Pos) -> String {
    format!("({},{})", p.0, p.1)
}

#[cfg(test)]
mod tests {
    use super::*;
    #[test]
    fn index_roundtrip() {
        let mut p = FIRST;
        for i in 0..NPOS {
            assert_eq!(pos_index(p), i);
            assert_eq!(pos_from_index(i), p);
            p = succ(p);
        }
        assert_eq!(p, TERMINAL);
    }
}
