//! The only source of randomness in the simulator: SplitMix64 for seed
//! derivation, xoshiro256** for the per-run stream. Nothing here reads a clock.

#[derive(Clone, Debug)]
pub struct SplitMix64(pub u64);

impl SplitMix64 {
    pub fn next(&mut self) -> u64 {
        self.0 = self.0.wrapping_add(0x9E37_79B9_7F4A_7C15);
        let mut z = self.0;
        z = (z ^ (z >> 30)).wrapping_mul(0xBF58_476D_1CE4_E5B9);
        z = (z ^ (z >> 27)).wrapping_mul(0x94D0_49BB_1331_11EB);
        z ^ (z >> 31)
    }
}

pub fn mix(a: u64, b: u64) -> u64 {
    let mut s = SplitMix64(a ^ b.wrapping_mul(0xD6E8_FEB8_6659_FD93));
    s.next();
    s.next() ^ b.rotate_left(17)
}

/// Per-run seed: a pure function of (VERIF_SEED, property tag, batch tag, run index).
pub fn run_seed(verif_seed: u64, prop: &str, batch: &str, i: u64) -> u64 {
    let mut h = mix(verif_seed, 0x5EED);
    for b in prop.bytes().chain([0u8]).chain(batch.bytes()) {
        h = mix(h, b as u64);
    }
    mix(h, i)
}

#[derive(Clone, Debug)]
pub struct Rng {
    s: [u64; 4],
    pub draws: u64,
}

impl Rng {
    pub fn new(seed: u64) -> Rng {
        let mut sm = SplitMix64(seed);
        Rng {
            s: [sm.next(), sm.next(), sm.next(), sm.next()],
            draws: 0,
        }
    }

    pub fn next_u64(&mut self) -> u64 {
        self.draws += 1;
        let r = self.s[1].wrapping_mul(5).rotate_left(7).wrapping_mul(9);
        let t = self.s[1] << 17;
        self.s[2] ^= self.s[0];
        self.s[3] ^= self.s[1];
        self.s[1] ^= self.s[2];
        self.s[0] ^= self.s[3];
        self.s[2] ^= t;
        self.s[3] = self.s[3].rotate_left(45);
        r
    }

    /// Uniform in 0..n (n > 0). Multiply-shift; bias is irrelevant here.
    pub fn below(&mut self, n: u64) -> u64 {
        debug_assert!(n > 0);
        ((self.next_u64() as u128 * n as u128) >> 64) as u64
    }

    pub fn usize_below(&mut self, n: usize) -> usize {
        self.below(n as u64) as usize
    }

    /// Uniform in lo..=hi.
    pub fn range(&mut self, lo: u64, hi: u64) -> u64 {
        lo + self.below(hi - lo + 1)
    }

    pub fn chance(&mut self, num: u64, den: u64) -> bool {
        self.below(den) < num
    }

    pub fn pick<'a, T>(&mut self, xs: &'a [T]) -> &'a T {
        &xs[self.usize_below(xs.len())]
    }

    pub fn shuffle<T>(&mut self, xs: &mut [T]) {
        for i in (1..xs.len()).rev() {
            let j = self.usize_below(i + 1);
            xs.swap(i, j);
        }
    }

    /// Pick an index by integer weights (sum > 0).
    pub fn weighted(&mut self, w: &[u64]) -> usize {
        let total: u64 = w.iter().sum();
        let mut x = self.below(total);
        for (i, wi) in w.iter().enumerate() {
            if x < *wi {
                return i;
            }
            x -= wi;
        }
        w.len() - 1
    }
}

/// Order-sensitive 64-bit accumulator used for digests and event-log hashes.
#[derive(Clone, Copy, Debug, PartialEq, Eq)]
pub struct Fold(pub u64);

impl Fold {
    pub fn new() -> Fold {
        Fold(0xCBF2_9CE4_8422_2325)
    }
    #[inline]
    pub fn add(&mut self, x: u64) {
        let mut z = self.0 ^ x.wrapping_mul(0x9E37_79B9_7F4A_7C15);
        z = (z ^ (z >> 32)).wrapping_mul(0xD6E8_FEB8_6659_FD93);
        z = (z ^ (z >> 29)).wrapping_mul(0xBF58_476D_1CE4_E5B9);
        self.0 = z ^ (z >> 32);
    }
    pub fn add_str(&mut self, s: &str) {
        self.add(s.len() as u64);
        for b in s.bytes() {
            self.add(b as u64);
        }
    }
    pub fn get(&self) -> u64 {
        self.0
    }
}
