//! C16 — the example's work splitter tiles the enumeration for every worker count.
//!
//! Simulated system: the multi-thread example on a machine with n+1 CPUs.
//! Real code: `calculate_scopes` (examples/multi-thread/scope.rs, compiled in
//! from the repository) and the scoped evaluators. Stub: the coordinator of
//! main.rs (spawn one worker per scope, merge what joins).

use crate::cards::*;
use crate::evalrun::*;
use crate::rng::{run_seed, Fold, Rng};
use crate::scenario::*;
use crate::shrink::{shrink_run, ShrinkOpts};
use crate::util::*;
use crate::world::*;
use serde_json::{json, Value};
use std::collections::BTreeMap;

#[allow(dead_code)]
mod scope {
    include!(concat!(env!("OUT_DIR"), "/scope.rs"));
}

pub fn scopes_for(n: u32) -> Result<Vec<(Pos, Pos)>, String> {
    guarded(|| {
        scope::calculate_scopes(n)
            .iter()
            .map(|s| ((s.turn_from, s.river_from), (s.turn_to, s.river_to)))
            .collect::<Vec<_>>()
    })
}

/// Tiling invariants, exactly the clauses of the statement. Returns the name of
/// the first broken rule and a description.
pub fn tiling_defect(sc: &[(Pos, Pos)]) -> Option<(&'static str, String)> {
    if sc.is_empty() {
        return Some(("nonempty", "no scope at all".into()));
    }
    for (i, (f, t)) in sc.iter().enumerate() {
        if !is_valid_pos(*f) {
            return Some((
                "valid_position",
                format!("scope[{i}] starts at {} which is not a position", pos_str(*f)),
            ));
        }
        if !is_valid_pos(*t) {
            return Some((
                "valid_position",
                format!("scope[{i}] ends at {} which is not a position", pos_str(*t)),
            ));
        }
    }
    if sc[0].0 != FIRST {
        return Some(("starts_at_first", format!("first scope starts at {}", pos_str(sc[0].0))));
    }
    if sc[sc.len() - 1].1 != TERMINAL {
        return Some((
            "ends_at_terminal",
            format!("last scope ends at {}", pos_str(sc[sc.len() - 1].1)),
        ));
    }
    for i in 0..sc.len() {
        if sc[i].0 > sc[i].1 {
            return Some((
                "never_backwards",
                format!("scope[{i}] = {}..{} goes backwards", pos_str(sc[i].0), pos_str(sc[i].1)),
            ));
        }
        if i > 0 && sc[i].0 != sc[i - 1].1 {
            return Some((
                "contiguous",
                format!(
                    "scope[{i}] starts at {} but scope[{}] ended at {}",
                    pos_str(sc[i].0),
                    i - 1,
                    pos_str(sc[i - 1].1)
                ),
            ));
        }
    }
    None
}

fn scopes_hash(sc: &[(Pos, Pos)]) -> u64 {
    let mut f = Fold::new();
    for (a, b) in sc {
        f.add(a.0 as u64);
        f.add(a.1 as u64);
        f.add(b.0 as u64);
        f.add(b.1 as u64);
    }
    f.get()
}

// ------------------------------------------------------------ conservation sim

pub struct ConsResult {
    pub key: Option<(String, String)>, // (oracle-key, detail)
    pub skipped: Option<String>,
    pub next_calls: u64,
    pub steps: u64,
    pub faults: BTreeMap<String, u64>,
    pub trace_hash: u64,
    pub states: usize,
    pub log: u64,
    pub probes: BTreeMap<String, u64>,
}

/// Execute an explicit run (tasks = the n workers, then duplicates) and apply
/// the conservation / termination / no-panic oracles. `dups[i] = j` means task
/// n+i is a speculative duplicate of worker j.
pub fn check_conservation(run: &Run, nworkers: usize) -> ConsResult {
    let mut w = World::new(&run.scens, &run.specs, run.execs);
    let scen = &run.scens[0];
    let prod = scen.product().max(1);
    w.drain_cap = 64 + 8 * prod * (NPOS as u64 + 2);
    w.run_all(&run.steps);
    w.finish_all();
    let mut res = ConsResult {
        key: None,
        skipped: None,
        next_calls: w.next_calls,
        steps: w.steps_done,
        faults: w.faults.clone(),
        trace_hash: w.trace_hash(),
        states: w.state_hashes.len(),
        log: w.log.get(),
        probes: BTreeMap::new(),
    };
    // reference: the real single-threaded loop on the very same ranges value
    let ranges = w.scens[0].ranges.clone();
    let (u, complete) = drain(&scen.flop, &ranges, &[], w.drain_cap);
    if !complete || !matches!(u.last(), Some(Out::End)) {
        res.skipped = Some("single-thread reference did not finish normally (C08's business)".into());
        return res;
    }
    let mut uy: Vec<(u8, u8, u64)> = u
        .iter()
        .filter_map(|o| match o {
            Out::Yield { t, r, h } => Some((*t, *r, *h)),
            _ => None,
        })
        .collect();
    uy.sort();
    let mut merged: Vec<(u8, u8, u64)> = vec![];
    for (ti, t) in w.tasks.iter().enumerate() {
        let eff = t.effective();
        // 3. termination and no panic: a worker that panics is reported, not swallowed
        if let Some(Out::Panic(m)) = eff.iter().find(|o| matches!(o, Out::Panic(_))) {
            res.key = Some((
                "worker_panic".into(),
                format!(
                    "worker {ti} scope {}..{} panicked: {m}",
                    pos_str(t.spec.from()),
                    pos_str(t.spec.to())
                ),
            ));
            return res;
        }
        if let Some(a) = &t.anomaly {
            res.key = Some((
                "worker_no_termination".into(),
                format!("worker {ti} scope {}..{}: {a}", pos_str(t.spec.from()), pos_str(t.spec.to())),
            ));
            return res;
        }
        if !t.ended {
            res.key = Some((
                "worker_no_termination".into(),
                format!("worker {ti} never reached None"),
            ));
            return res;
        }
        if ti >= nworkers {
            continue;
        }
        for o in eff {
            if let Out::Yield { t, r, h } = o {
                merged.push((t, r, h));
            }
        }
    }
    // duplicates must agree with the worker they duplicate (same spec)
    for ti in nworkers..w.tasks.len() {
        let orig = (0..nworkers).find(|j| w.tasks[*j].spec == w.tasks[ti].spec);
        if let Some(j) = orig {
            let a: Vec<Out> = w.tasks[j].effective().into_iter().filter(|o| matches!(o, Out::Yield { .. })).collect();
            let b: Vec<Out> = w.tasks[ti].effective().into_iter().filter(|o| matches!(o, Out::Yield { .. })).collect();
            if a != b {
                res.key = Some((
                    "dup_shard_differs".into(),
                    format!("duplicate of worker {j} produced a different shard result ({} vs {} showdowns)", a.len(), b.len()),
                ));
                return res;
            }
            *res.probes.entry("dup_shard_compared".into()).or_insert(0) += 1;
        }
    }
    merged.sort();
    if merged != uy {
        // find first difference for the report
        let mut detail = format!(
            "merged worker results: {} showdowns, single-thread: {}",
            merged.len(),
            uy.len()
        );
        let mut i = 0;
        while i < merged.len() && i < uy.len() && merged[i] == uy[i] {
            i += 1;
        }
        if i < merged.len() || i < uy.len() {
            let m = merged.get(i).map(|x| format!("({},{})#{:x}", x.0, x.1, x.2)).unwrap_or("-".into());
            let s = uy.get(i).map(|x| format!("({},{})#{:x}", x.0, x.1, x.2)).unwrap_or("-".into());
            detail += &format!("; first difference in position order: merged has {m}, single-thread has {s}");
        }
        res.key = Some(("conservation".into(), detail));
    }
    res
}

struct ConsCase {
    n: u32,
    res: ConsResult,
    run: Run,
    nworkers: usize,
    sample: Value,
}

fn gen_cons_case(n: u32, seed: u64, faults_on: bool) -> Option<ConsCase> {
    let mut rng = Rng::new(seed);
    let scopes = scopes_for(n).ok()?;
    let params = ScenParams {
        max_players: 3,
        max_product: if n > 256 { 12 } else { 40 },
        allow_zero_players: true,
        hash_seeds: true,
    };
    let scen = gen_scenario(&mut rng, &params);
    let mut specs: Vec<TaskSpec> = scopes
        .iter()
        .map(|(f, t)| TaskSpec {
            scen: 0,
            scope: Some((*f, *t)),
            pre: vec![],
            extra_polls: 0,
        })
        .collect();
    let nworkers = specs.len();
    if faults_on {
        // dup_shard: speculative duplicates of a few workers
        let k = rng.range(0, 3.min(nworkers as u64)) as usize;
        for _ in 0..k {
            let j = rng.usize_below(nworkers);
            specs.push(specs[j].clone());
        }
        // poll_after_end on some
        for s in specs.iter_mut() {
            if rng.chance(1, 8) {
                s.extra_polls = rng.range(1, 3) as u8;
            }
        }
    }
    let execs = if rng.chance(1, 3) { rng.range(1, 3) as usize } else { 0 };
    let policy = if n > 128 {
        *rng.pick(&[Policy::RoundRobin, Policy::RunToCompletion, Policy::Bursts, Policy::Uniform])
    } else {
        *rng.pick(&POLICIES)
    };
    let prod = scen.product().max(1);
    let cfg = SchedCfg {
        policy,
        crash_resume_pm: if faults_on && rng.chance(1, 2) { rng.range(1, 8) } else { 0 },
        restart_pm: if faults_on && rng.chance(1, 2) { rng.range(1, 6) } else { 0 },
        max_crashes: rng.range(1, 6),
        migrate: execs > 1,
        max_steps: 4 * (64 + 8 * prod * (NPOS as u64 + 2)) + 8 * specs.len() as u64,
    };
    // generate the schedule by running it once; the explicit trace is then re-checked
    let mut w = World::new(std::slice::from_ref(&scen), &specs, execs);
    w.drain_cap = 64 + 8 * prod * (NPOS as u64 + 2);
    schedule(&mut w, &mut rng, &cfg);
    let run = Run {
        scens: vec![scen.clone()],
        specs,
        steps: w.trace.clone(),
        execs,
    };
    drop(w);
    let res = check_conservation(&run, nworkers);
    let sample = json!({
        "n": n,
        "scenario": scen.short(),
        "policy": format!("{:?}", policy),
        "executors": execs,
        "workers": nworkers,
        "duplicates": run.specs.len() - nworkers,
        "steps": res.steps,
        "faults": res.faults,
        "first_scopes": scopes.iter().take(4).map(|(f,t)| format!("{}..{}", pos_str(*f), pos_str(*t))).collect::<Vec<_>>(),
    });
    Some(ConsCase {
        n,
        res,
        run,
        nworkers,
        sample,
    })
}

/// The (n, faults_on) list simulated by the conservation batch: a pure
/// function of (VERIF_SEED, tier), computed alike by parent and children.
fn cons_plan(vs: u64, quick: bool) -> Vec<(u32, bool)> {
    let mut ns: Vec<(u32, bool)> = vec![];
    let dense = if quick { 64 } else { 1024 };
    for n in 1..=dense {
        ns.push((n, false));
        ns.push((n, true));
    }
    let mut rng = Rng::new(run_seed(vs, "C16", "cons-n", 0));
    let sampled = if quick { 160 } else { 3000 };
    for _ in 0..sampled {
        let n = match rng.below(6) {
            0 => rng.range(1177, 2048) as u32,
            1 => rng.range(65, 400) as u32,
            // beyond 2304 workers the list ends in empty scopes at the terminal itself
            2 => rng.range(2049, 6000) as u32,
            _ => rng.range(dense as u64 + 1, 2048) as u32,
        };
        ns.push((n, rng.chance(2, 3)));
    }
    ns
}

fn to_replay(run: &Run, n: u32, nworkers: usize) -> Value {
    let mut rj = run.to_json();
    rj["kind"] = json!("c16_conservation");
    rj["n"] = json!(n);
    rj["nworkers"] = json!(nworkers);
    rj
}

// ----------------------------------------------------- the real example binary

/// Worker counts of the machine batch (the example runs with n+1 fake CPUs).
fn machine_plan(quick: bool) -> Vec<u32> {
    let mut v: Vec<u32> = (1..=24).collect();
    v.extend([27, 31, 32, 33, 47, 48, 63, 64, 100, 128, 255, 256, 511, 1023]);
    if !quick {
        v.extend(25..=200);
        v.extend([300, 400, 512, 600, 700, 777, 800, 900, 1000, 1022]);
    }
    v
}

const RANGE_POOL: [&str; 16] = [
    "AsKs", "QdQc", "JJ", "AKs", "T9s:0.5", "77-66", "AhKd:0.25", "22", "A5s-A4s", "KQo:0.5", "9c8c", "TT:0.75", "AQs+", "5h4h", "KJs:0", "8d8c",
];
const BOARD_POOL: [&str; 8] = ["7h8h9c", "AsAh2c", "KhKdKc", "2h3d4c", "QsJsTs", "9d5c2h", "AcKcQc", "6s6d7h"];

fn run_example(bin: &str, ncpus: Option<u32>, board: &str, ranges: &[String]) -> Result<(u64, BTreeMap<String, f64>), String> {
    let mut cmd = std::process::Command::new(bin);
    cmd.arg(board).args(ranges).stderr(std::process::Stdio::piped());
    if let Some(k) = ncpus {
        let so = std::env::var("FAKECPUS_SO").map_err(|_| "FAKECPUS_SO not set (run through ./check)".to_string())?;
        cmd.env("LD_PRELOAD", so).env("FAKE_NCPUS", k.to_string());
    }
    let out = cmd.output().map_err(|e| format!("{bin}: {e}"))?;
    let text = String::from_utf8_lossy(&out.stdout);
    if !out.status.success() {
        let err = String::from_utf8_lossy(&out.stderr);
        if err.contains("failed to spawn thread") || err.contains("Resource temporarily unavailable") || err.contains("Cannot allocate memory") {
            return Err("ENV: this sandbox could not give the example that many threads".to_string());
        }
        return Err(format!("exited with {} ({})", out.status, err.lines().next().unwrap_or("").chars().take(160).collect::<String>()));
    }
    let mut mat: Option<u64> = None;
    let mut eq: BTreeMap<String, f64> = BTreeMap::new();
    for l in text.lines() {
        if let Some(rest) = l.strip_prefix("materialized: ") {
            mat = rest.split(' ').next().and_then(|x| x.parse().ok());
        } else if mat.is_some() {
            if let Some((c, p)) = l.split_once(": ") {
                if let Some(p) = p.strip_suffix('%') {
                    if let Ok(x) = p.parse::<f64>() {
                        // both players may hold the same combo: key by occurrence
                        let mut key = c.to_string();
                        while eq.contains_key(&key) {
                            key.push('\'');
                        }
                        eq.insert(key, x);
                    }
                }
            }
        }
    }
    mat.map(|m| (m, eq)).ok_or_else(|| "no 'materialized:' line in the output".to_string())
}

/// The unmodified multi-thread example on a machine with n+1 CPUs (LD_PRELOAD
/// shim) against the unmodified single-thread example, same arguments.
fn machine_case(n: u32, board: &str, ranges: &[String]) -> Result<Option<(String, String)>, String> {
    let multi = std::env::var("EX_MULTI").map_err(|_| "EX_MULTI not set (run through ./check)".to_string())?;
    let single = std::env::var("EX_SINGLE").map_err(|_| "EX_SINGLE not set".to_string())?;
    let (sm, se) = match run_example(&single, None, board, ranges) {
        Ok(x) => x,
        Err(_) => return Ok(None), // the single-threaded run itself fails on this input: not C16's business
    };
    match run_example(&multi, Some(n + 1), board, ranges) {
        // an environment limit (thread count) is not a verdict on the property
        Err(e) if e.starts_with("ENV:") => Ok(None),
        Err(e) => Ok(Some(("machine_example_failed".into(), format!("multi-thread example on {} CPUs ({n} workers): {e}", n + 1)))),
        Ok((mm, me)) => {
            if mm != sm {
                return Ok(Some((
                    "machine_materialized".into(),
                    format!("multi-thread example on {} CPUs ({n} workers) materialised {mm} showdowns, the single-thread example {sm}", n + 1),
                )));
            }
            // equities are f64 sums printed with three decimals: equal up to the last printed digit
            let mut se_sorted: Vec<f64> = se.values().cloned().collect();
            let mut me_sorted: Vec<f64> = me.values().cloned().collect();
            se_sorted.sort_by(|a, b| a.partial_cmp(b).unwrap());
            me_sorted.sort_by(|a, b| a.partial_cmp(b).unwrap());
            if se_sorted.len() != me_sorted.len() || se_sorted.iter().zip(me_sorted.iter()).any(|(a, b)| (a - b).abs() > 0.0011) {
                return Ok(Some((
                    "machine_equity".into(),
                    format!("multi-thread example on {} CPUs ({n} workers) prints equities {:?}, the single-thread example {:?}", n + 1, me, se),
                )));
            }
            Ok(None)
        }
    }
}

fn machine_inputs(seed: u64) -> (String, Vec<String>) {
    let mut rng = Rng::new(seed);
    let board = BOARD_POOL[rng.usize_below(BOARD_POOL.len())].to_string();
    let np = rng.range(1, 3) as usize;
    let ranges: Vec<String> = (0..np)
        .map(|_| {
            let k = rng.range(1, 2);
            (0..k).map(|_| RANGE_POOL[rng.usize_below(RANGE_POOL.len())].to_string()).collect::<Vec<_>>().join(",")
        })
        .collect();
    (board, ranges)
}

/// Worker counts of the native batch: real threads, as the example spawns them.
fn native_plan(quick: bool) -> Vec<u32> {
    let mut v: Vec<u32> = vec![2, 3, 4, 5, 8, 12, 16, 17, 18, 24, 32, 33, 48, 64];
    if !quick {
        v.extend([6, 7, 9, 10, 15, 20, 28, 40, 56, 96, 128]);
        let w = v.clone();
        for _ in 0..8 {
            v.extend(w.iter());
        }
    }
    v
}

/// The example run for real: n OS threads, each building its own scoped
/// evaluator from the shared Arc'd board/ranges and draining it concurrently;
/// whatever joins is merged. The OS decides this schedule (not replayable): a
/// supplement to the simulated workers, which decide the property.
fn native_case(n: u32, seed: u64) -> Option<(String, String, Value)> {
    let mut rng = Rng::new(seed);
    let scen = gen_scenario(&mut rng, &ScenParams { max_players: 3, max_product: 24, allow_zero_players: false, hash_seeds: false });
    let scopes = scopes_for(n).ok()?;
    if tiling_defect(&scopes).is_some() {
        return None;
    }
    let ranges = std::sync::Arc::new(scen.build_ranges());
    let flop = scen.flop;
    let cap = 64 + 8 * scen.product().max(1) * (NPOS as u64 + 2);
    // the single-thread reference uses its own copy: the shared range objects are first
    // touched by the concurrent workers, as in the example
    let (u, complete) = drain(&flop, &scen.build_ranges(), &[], cap);
    if !complete || !matches!(u.last(), Some(Out::End)) {
        return None;
    }
    let mut want: Vec<(u8, u8, u64)> = u.iter().filter_map(|o| match o { Out::Yield { t, r, h } => Some((*t, *r, *h)), _ => None }).collect();
    want.sort();
    for round in 0..3 {
        let barrier = std::sync::Arc::new(std::sync::Barrier::new(scopes.len()));
        let hs: Vec<_> = scopes
            .iter()
            .cloned()
            .map(|sc| {
                let ranges = ranges.clone();
                let bar = barrier.clone();
                std::thread::Builder::new().stack_size(16 << 20).spawn(move || {
                    bar.wait();
                    drain(&flop, &ranges, &[sc], cap).0
                })
            })
            .collect();
        let mut merged: Vec<(u8, u8, u64)> = vec![];
        let mut problem: Option<String> = None;
        for (wi, h) in hs.into_iter().enumerate() {
            match h {
                Ok(h) => match h.join() {
                    Ok(outs) => {
                        for o in outs {
                            match o {
                                Out::Yield { t, r, h } => merged.push((t, r, h)),
                                Out::Panic(m) => problem = problem.or(Some(format!("worker {wi} of {n} panicked: {m}"))),
                                Out::End => {}
                            }
                        }
                    }
                    Err(_) => problem = problem.or(Some(format!("worker {wi} of {n}: panic escaped the thread"))),
                },
                Err(e) => {
                    eprintln!("HARNESS ERROR: cannot spawn worker thread: {e}");
                    std::process::exit(2);
                }
            }
        }
        merged.sort();
        if problem.is_none() && merged != want {
            problem = Some(format!("{n} concurrent workers merged to {} showdowns, the single-threaded run has {} (round {round})", merged.len(), want.len()));
        }
        if let Some(p) = problem {
            let okey = if p.contains("panic") { "native_worker_panic" } else { "native_conservation" };
            return Some((okey.to_string(), format!("{}: {p} (OS schedule: may not replay)", scen.short()), json!({"kind":"c16_native","n":n,"seed":seed.to_string()})));
        }
    }
    None
}

pub fn case(batch: &str, tier: &str, i: u64) -> CaseOut {
    let vs = verif_seed();
    if batch == "machine" {
        let plan = machine_plan(tier.starts_with("quick"));
        let n = plan[i as usize % plan.len()];
        let seed = run_seed(vs, "C16", "machine", i);
        let (board, ranges) = machine_inputs(seed);
        let mut out = CaseOut { index: i, seed, evals: 1, ..Default::default() };
        *out.probes.entry("real_example_runs_under_fake_cpu_count".into()).or_insert(0) += 1;
        *out.faults.entry("cpu_count".into()).or_insert(0) += 1;
        if n > 16 {
            *out.probes.entry("real_example_runs_with_more_workers_than_this_sandbox_has_cores".into()).or_insert(0) += 1;
        }
        let mut f = Fold::new();
        f.add(n as u64);
        f.add_str(&board);
        for r in &ranges {
            f.add_str(r);
        }
        out.distinct.push(f.get());
        out.log = f.get();
        if n % 9 == 0 {
            out.sample = Some(json!({"machine_cpus": n + 1, "workers": n, "argv": [board, ranges]}));
        }
        match machine_case(n, &board, &ranges) {
            Ok(None) => {}
            Ok(Some((k, d))) => {
                out.violation = Some((k, format!("{board} {:?}: {d}", ranges), json!({"kind":"c16_machine","n":n,"board":board,"ranges":ranges})));
            }
            Err(e) => {
                eprintln!("HARNESS ERROR: {e}");
                std::process::exit(2);
            }
        }
        return out;
    }
    if batch == "native" {
        let plan = native_plan(tier.starts_with("quick"));
        let n = plan[i as usize % plan.len()];
        let seed = run_seed(vs, "C16", "native", i);
        let mut out = CaseOut { index: i, seed, evals: 1, ..Default::default() };
        *out.probes.entry("native_concurrent_machines".into()).or_insert(0) += 1;
        if n >= 17 {
            *out.probes.entry("native_machines_with_17plus_workers".into()).or_insert(0) += 1;
        }
        out.violation = native_case(n, seed);
        return out;
    }
    let plan = cons_plan(vs, tier.starts_with("quick"));
    let (n, faults_on) = plan[i as usize % plan.len()];
    let seed = run_seed(vs, "C16", if faults_on { "cons-f" } else { "cons" }, i);
    let mut out = CaseOut { index: i, seed, ..Default::default() };
    // a worker count whose scope list already breaks a tiling clause is reported by
    // oracle 1; simulating it would only show the consequence
    match scopes_for(n) {
        Ok(sc) if tiling_defect(&sc).is_none() => {}
        _ => {
            *out.probes.entry("conservation_skipped_tiling_already_broken_for_n".into()).or_insert(0) += 1;
            return out;
        }
    }
    let Some(c) = gen_cons_case(n, seed, faults_on) else { return out };
    out.evals = 1;
    out.steps = c.res.next_calls;
    out.log = c.res.log;
    out.faults = c.res.faults.clone();
    out.probes = c.res.probes.clone();
    let nfaults: u64 = c.res.faults.values().sum();
    let mut probe = |k: &str, v: u64| *out.probes.entry(k.to_string()).or_insert(0) += v;
    probe("conservation_runs", 1);
    probe("global_states_seen", c.res.states as u64);
    if c.n > 1176 {
        probe("conservation_n_gt_1176", 1);
    }
    if c.n > 2304 {
        probe("conservation_n_gt_2304_scopes_at_the_terminal", 1);
    }
    if c.run.execs > 1 {
        probe("multi_executor_runs", 1);
    }
    if c.nworkers >= 2 || nfaults > 0 {
        let mut f = Fold::new();
        f.add(c.n as u64);
        f.add(c.res.trace_hash);
        f.add_str(&c.run.scens[0].short());
        out.distinct.push(f.get());
    }
    if c.res.skipped.is_some() {
        probe("skipped_reference_abnormal", 1);
        return out;
    }
    if c.n % 7 == 3 || nfaults > 0 {
        out.sample = Some(c.sample.clone());
    }
    if let Some((okey, detail)) = &c.res.key {
        out.violation = Some((okey.clone(), detail.clone(), to_replay(&c.run, c.n, c.nworkers)));
    }
    out
}

pub fn eval(v: &Value) -> Option<(String, String)> {
    match v["kind"].as_str().unwrap_or("") {
        "c16_tiling" => {
            let n = v["n"].as_u64().unwrap_or(1) as u32;
            match scopes_for(n) {
                Ok(sc) => tiling_defect(&sc).map(|(rule, d)| (format!("tiling:{rule}"), d)),
                Err(m) => Some(("tiling:panic".into(), m)),
            }
        }
        "c16_machine" => {
            let n = v["n"].as_u64().unwrap_or(1) as u32;
            let board = v["board"].as_str()?.to_string();
            let ranges: Vec<String> = v["ranges"].as_array()?.iter().filter_map(|x| x.as_str().map(|s| s.to_string())).collect();
            match machine_case(n, &board, &ranges) {
                Ok(x) => x,
                Err(e) => {
                    eprintln!("HARNESS ERROR: {e}");
                    std::process::exit(2);
                }
            }
        }
        "c16_native" => {
            let n = v["n"].as_u64().unwrap_or(2) as u32;
            let seed: u64 = v["seed"].as_str()?.parse().ok()?;
            for _ in 0..10 {
                if let Some((k, d, _)) = native_case(n, seed) {
                    return Some((k, d));
                }
            }
            None
        }
        _ => {
            let mut run = Run::from_json(v).ok()?;
            let n = v["n"].as_u64().unwrap_or(0);
            let nworkers = v["nworkers"].as_u64().unwrap_or(run.specs.len() as u64) as usize;
            // the scopes are recomputed by the current calculate_scopes(n): the replay
            // re-executes the recorded schedule on today's splitter, not on stored cuts
            if let Ok(cur) = scopes_for(n as u32) {
                if cur.len() == nworkers {
                    let old: Vec<TaskSpec> = run.specs.clone();
                    for i in 0..run.specs.len() {
                        let j = if i < nworkers { i } else { (0..nworkers).find(|j| old[*j].scope == old[i].scope).unwrap_or(0) };
                        run.specs[i].scope = Some(cur[j]);
                    }
                }
            }
            check_conservation(&run, nworkers).key
        }
    }
}

fn minimise_json(replay: &Value, _okey: &str, pred: &dyn Fn(&Value) -> bool) -> (Value, usize) {
    if replay["kind"].as_str() == Some("c16_native") {
        return (replay.clone(), 0);
    }
    if replay["kind"].as_str() == Some("c16_machine") {
        // fewer players, then single ranges, while the same oracle fires
        let mut best = replay.clone();
        let mut tried = 0usize;
        loop {
            let ranges: Vec<String> = best["ranges"].as_array().map(|a| a.iter().filter_map(|x| x.as_str().map(|s| s.to_string())).collect()).unwrap_or_default();
            let mut improved = false;
            for i in 0..ranges.len() {
                if ranges.len() > 1 {
                    let mut r2 = ranges.clone();
                    r2.remove(i);
                    let mut c = best.clone();
                    c["ranges"] = json!(r2);
                    tried += 1;
                    if pred(&c) {
                        best = c;
                        improved = true;
                        break;
                    }
                }
                if let Some((a, _)) = ranges[i].split_once(',') {
                    let mut r2 = ranges.clone();
                    r2[i] = a.to_string();
                    let mut c = best.clone();
                    c["ranges"] = json!(r2);
                    tried += 1;
                    if pred(&c) {
                        best = c;
                        improved = true;
                        break;
                    }
                }
            }
            if !improved || tried > 20 {
                break;
            }
        }
        return (best, tried);
    }
    let Ok(run) = Run::from_json(replay) else { return (replay.clone(), 0) };
    let n = replay["n"].as_u64().unwrap_or(0) as u32;
    let nworkers = replay["nworkers"].as_u64().unwrap_or(run.specs.len() as u64) as usize;
    let fails = move |r: &Run| -> bool { pred(&to_replay(r, n, nworkers)) };
    // keep n (the scopes are the point), shrink scenario and schedule
    let (min, tried) = shrink_run(
        run,
        &fails,
        ShrinkOpts { drop_tasks: false, drop_players: true, narrow_scopes: false, max_candidates: 120 },
    );
    (to_replay(&min, n, nworkers), tried)
}

fn key_json(okey: &str, min: &Value) -> String {
    format!("{okey}:n={}", min["n"].as_u64().unwrap_or(0))
}

pub fn run(tier: &str) -> i32 {
    let vs = verif_seed();
    let mut ev = Evidence::new("C16", tier, "exploration");
    ev.rule = "oracle 1: every n in the stated range is one evaluation (calculate_scopes(n) checked against the tiling clauses); distinct = distinct scope lists (hash of the list) with >= 2 scopes. oracle 2/3: one evaluation per simulated run (n workers on real scoped evaluators under a seeded schedule with faults); distinct = distinct (n, scenario, schedule-trace) hashes with >= 2 workers or >= 1 fired fault".into();
    ev.assumptions = vec![
        "main.rs orchestration is a stub (coordinator re-modelled in the simulator); calculate_scopes and the evaluators are the repository's code".into(),
        "per-thread results are compared as multisets of showdown digests (position, hole cards, power index, win flags, winner count, probability bits), which determines every tally the example computes".into(),
        "n = 0 (a one-CPU machine) is outside the statement".into(),
    ];
    let quick = tier == "quick";
    // ---------------- oracle 1: all n in range
    let max_n: u32 = if quick { 8192 } else { 131072 };
    let chunk = 256u32;
    let chunks = ((max_n + chunk - 1) / chunk) as usize;
    let t1 = par_map(chunks, workers(), move |ci| {
        let lo = ci as u32 * chunk + 1;
        let hi = ((ci as u32 + 1) * chunk).min(max_n);
        let mut out: Vec<(u32, u64, usize, Option<(String, String)>)> = vec![];
        for n in lo..=hi {
            match scopes_for(n) {
                Ok(sc) => {
                    let d = tiling_defect(&sc).map(|(r, s)| (r.to_string(), s));
                    out.push((n, scopes_hash(&sc), sc.len(), d));
                }
                Err(m) => out.push((n, 0, 0, Some(("panic".to_string(), format!("calculate_scopes({n}) panicked: {m}"))))),
            }
        }
        out
    });
    let mut extra_n: Vec<u32> = vec![];
    if !quick {
        let mut rng = Rng::new(run_seed(vs, "C16", "bign", 0));
        for _ in 0..600 {
            extra_n.push(rng.range(131073, 1 << 20) as u32);
        }
        for k in 17..=24u32 {
            extra_n.push(1 << k);
            extra_n.push((1 << k) - 1);
            extra_n.push((1 << k) + 1);
        }
    }
    let extra_n2 = extra_n.clone();
    let t1b = par_map(extra_n.len(), workers(), move |i| {
        let n = extra_n2[i];
        match scopes_for(n) {
            Ok(sc) => {
                let d = tiling_defect(&sc).map(|(r, s)| (r.to_string(), s));
                vec![(n, scopes_hash(&sc), sc.len(), d)]
            }
            Err(m) => vec![(n, 0, 0, Some(("panic".to_string(), format!("calculate_scopes({n}) panicked: {m}"))))],
        }
    });
    let mut bad_by_rule: BTreeMap<String, Vec<(u32, String)>> = BTreeMap::new();
    let mut tiling_bad_n: std::collections::BTreeSet<u32> = Default::default();
    let mut n_checked = 0u64;
    for (n, h, len, d) in t1.into_iter().chain(t1b.into_iter()).flatten() {
        n_checked += 1;
        ev.evaluations += 1;
        if len >= 2 {
            ev.distinct.insert(h);
        }
        if len as u32 > 1176 {
            ev.probe("n_gt_1176_has_empty_scopes", 1);
        }
        if let Some((rule, detail)) = d {
            tiling_bad_n.insert(n);
            bad_by_rule.entry(rule).or_default().push((n, detail));
        }
    }
    for (rule, list) in &bad_by_rule {
        let (n0, d0) = &list[0];
        let ns: Vec<String> = list.iter().take(12).map(|(n, _)| n.to_string()).collect();
        ev.violations.push(Violation {
            property: "C16".into(),
            oracle: format!("tiling:{rule}"),
            key: format!("tiling:{rule}:n={n0}"),
            detail: format!(
                "calculate_scopes({n0}): {d0}. {} of {} worker counts checked break this clause (first: {}{})",
                list.len(),
                n_checked,
                ns.join(","),
                if list.len() > 12 { ",…" } else { "" }
            ),
            seed: vs,
            replay: json!({"kind":"c16_tiling","n":n0,"rule":rule}),
        });
    }
    ev.extra.insert("oracle1_n_checked".into(), json!(n_checked));
    ev.extra.insert("oracle1_n_range".into(), json!(format!("all n in 1..={max_n}{}", if quick {""} else {" plus 624 sampled/power-of-two-adjacent n up to 2^24"})));
    ev.extra.insert("oracle1_n_violating".into(), json!(tiling_bad_n.len()));
    for n in [1u32, 4, 10, 17, 1177] {
        if let Ok(sc) = scopes_for(n) {
            ev.sample(json!({"n": n, "scopes": sc.iter().take(6).map(|(f,t)| format!("{}..{}", pos_str(*f), pos_str(*t))).collect::<Vec<_>>(), "count": sc.len()}));
        }
    }

    // ---------------- oracle 2/3: conservation runs, in chunked child processes
    let ncases = cons_plan(vs, quick).len() as u64;
    let chunk: u64 = if quick { 8 } else { 32 };
    let mut logfold = Fold::new();
    let chunks = run_batch("C16", "cons", ncases, chunk, tier, false);
    for (ci, ch) in chunks.iter().enumerate() {
        let chunk_first = ci as u64 * chunk;
        if let Some((i, how)) = &ch.died {
            ev.violations.push(Violation {
                property: "C16".into(),
                oracle: "process_died".into(),
                key: format!("process_died:history:cons:{chunk_first}..={i}"),
                detail: format!("the process simulating the workers ended with {how} at case {i}"),
                seed: vs,
                replay: json!({"kind":"chunk","batch":"cons","first":chunk_first,"upto":i,"tier":tier,"expected_oracle":"process_died"}),
            });
        }
        for c in &ch.cases {
            ev.merge_case(c);
            logfold.add(c.log);
            if let Some(sm) = &c.sample {
                if ev.samples.len() < 10 {
                    ev.sample(sm.clone());
                }
            }
            if c.violation.is_some() {
                if ev.violations.iter().filter(|v| !v.oracle.starts_with("tiling")).count() >= 3 {
                    ev.probe("further_violations_not_minimised", 1);
                    continue;
                }
                let mut v = settle_violation("C16", "cons", tier, false, chunk_first, c, &minimise_json, &key_json);
                if let Ok(run) = Run::from_json(&v.replay) {
                    v.detail = format!("n={} {}: {}", v.replay["n"].as_u64().unwrap_or(0), run.scens[0].short(), v.detail);
                }
                ev.violations.push(v);
            }
        }
    }
    // a reduced conservation batch by the dev-profile binary
    {
        let n_dev: u64 = if quick { 48 } else { 600 };
        let tdev = format!("{tier}/dev");
        let chunks = run_batch("C16", "cons", n_dev, chunk, &tdev, true);
        for (ci, ch) in chunks.iter().enumerate() {
            let chunk_first = ci as u64 * chunk;
            if let Some((i, how)) = &ch.died {
                ev.violations.push(Violation {
                    property: "C16".into(),
                    oracle: "process_died".into(),
                    key: format!("dev:process_died:history:cons:{chunk_first}..={i}"),
                    detail: format!("[dev profile] the process simulating the workers ended with {how} at case {i}"),
                    seed: vs,
                    replay: json!({"kind":"chunk","batch":"cons","first":chunk_first,"upto":i,"tier":tdev,"profile":"dev","expected_oracle":"process_died"}),
                });
            }
            for c in &ch.cases {
                ev.merge_case(c);
                ev.fault("profile_dev", c.evals);
                logfold.add(c.log);
                if c.violation.is_some() && ev.violations.iter().filter(|v| !v.oracle.starts_with("tiling")).count() < 3 {
                    let mut v = settle_violation("C16", "cons", &tdev, true, chunk_first, c, &minimise_json, &key_json);
                    v.detail = format!("[dev profile] n={}: {}", v.replay["n"].as_u64().unwrap_or(0), v.detail);
                    v.key = format!("dev:{}", v.key);
                    ev.violations.push(v);
                }
            }
        }
    }
    // the real example binaries on simulated machines (LD_PRELOAD CPU-count shim)
    {
        let nm = machine_plan(quick).len() as u64;
        let chunks = run_batch_par("C16", "machine", nm, 4, tier, false, 4);
        for (ci, ch) in chunks.iter().enumerate() {
            let chunk_first = ci as u64 * 4;
            for c in &ch.cases {
                ev.merge_case(c);
                logfold.add(c.log);
                if let Some(sm) = &c.sample {
                    if ev.samples.len() < 12 {
                        ev.sample(sm.clone());
                    }
                }
                if c.violation.is_some() {
                    if ev.violations.iter().filter(|v| v.oracle.starts_with("machine")).count() < 2 {
                        ev.violations.push(settle_violation("C16", "machine", tier, false, chunk_first, c, &minimise_json, &key_json));
                    } else {
                        ev.probe("further_violations_not_minimised", 1);
                    }
                }
            }
        }
    }
    // native supplement: the example's n real threads, concurrently
    {
        let nn = native_plan(quick).len() as u64;
        let chunks = run_batch_par("C16", "native", nn, 4, tier, false, 6);
        for (ci, ch) in chunks.iter().enumerate() {
            let chunk_first = ci as u64 * 4;
            if let Some((i, how)) = &ch.died {
                ev.violations.push(Violation {
                    property: "C16".into(),
                    oracle: "process_died".into(),
                    key: format!("process_died:history:native:{chunk_first}..={i}"),
                    detail: format!("the process running the concurrent workers ended with {how} at case {i}"),
                    seed: vs,
                    replay: json!({"kind":"chunk","batch":"native","first":chunk_first,"upto":i,"tier":tier,"expected_oracle":"process_died"}),
                });
            }
            for c in &ch.cases {
                ev.merge_case(c);
                if c.violation.is_some() && !ev.violations.iter().any(|v| v.oracle.starts_with("native")) {
                    ev.violations.push(settle_violation("C16", "native", tier, false, chunk_first, c, &minimise_json, &key_json));
                }
            }
        }
    }
    ev.extra.insert("event_log_digest".into(), json!(format!("{:016x}", logfold.get())));
    ev.extra.insert("components".into(), json!({
        "real": ["examples/multi-thread/scope.rs::calculate_scopes", "FlopExhaustiveEvaluator::{new,scope,into_iter}", "iterator next()", "Showdown", "MadeHand", "HandRange collect/clone"],
        "stub": ["examples/multi-thread/main.rs coordinator (spawn/join/merge) re-modelled by the simulator in the conservation batch"],
        "real_binaries": ["examples/multi-thread (unmodified, under the LD_PRELOAD shim machine/fakecpus.c faking 2..1024 CPUs) vs examples/single-thread, same argv, in the machine batch"],
        "simulated": ["cpu count n+1", "thread schedule", "worker crash/restart/duplicate"],
    }));
    ev.extra.insert("inventory_shared_state".into(), json!(inventory()));
    ev.finish()
}

pub fn replay(v: &Value) -> Option<(String, String)> {
    let r = &v["replay"];
    match r["kind"].as_str().unwrap_or("") {
        "chunk" => replay_chunk("C16", r),
        "c16_tiling" => eval(r).map(|(k, d)| (format!("{k}:n={}", r["n"].as_u64().unwrap_or(0)), d)),
        "c16_conservation" | "c16_native" | "c16_machine" => {
            let dev = r["profile"].as_str() == Some("dev");
            eval_in_child("C16", r, dev).map(|(k, d)| (format!("{}{}", if dev { "dev:" } else { "" }, key_json(&k, r)), d))
        }
        _ => None,
    }
}
