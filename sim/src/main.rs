//! espada-sim — deterministic simulation with fault injection for axross/espada.
//! See /verif/DESIGN.md. Exit codes: 0 held, 1 violation, 2 harness error.

mod c04;
mod c08;
mod c15;
mod c16;
mod c17;
mod cards;
mod evalrun;
mod rng;
mod scenario;
mod shrink;
mod util;
mod world;

use std::path::Path;

fn usage() -> ! {
    eprintln!("usage: espada-sim run <C04|C08|C15|C16|C17> <quick|thorough> | replay <file>");
    std::process::exit(2);
}

fn main() {
    evalrun::install_panic_hook();
    let args: Vec<String> = std::env::args().collect();
    if args.len() < 2 {
        usage();
    }
    // everything runs on a big-stack thread so deep recursion in the code under
    // test cannot take the harness down outside the C08 children
    let h = std::thread::Builder::new()
        .stack_size(util::BIG_STACK)
        .spawn(move || real_main(args))
        .unwrap();
    let code = h.join().unwrap_or(2);
    std::process::exit(code);
}

fn real_main(args: Vec<String>) -> i32 {
    match args[1].as_str() {
        "cases" => {
            let f = |prop: &str, batch: &str, tier: &str, i: u64| -> util::CaseOut {
                match prop {
                    "C04" => c04::case(batch, tier, i),
                    "C15" => c15::case(batch, tier, i),
                    "C16" => c16::case(batch, tier, i),
                    "C17" => c17::case(batch, tier, i),
                    _ => {
                        eprintln!("no cases for {prop}");
                        std::process::exit(2)
                    }
                }
            };
            util::cases_child_main(&args, &f)
        }
        "eval" => {
            let prop = args.get(2).cloned().unwrap_or_default();
            let f = move |v: &serde_json::Value| -> Option<(String, String)> {
                match prop.as_str() {
                    "C04" => c04::eval(v),
                    "C15" => c15::eval(v),
                    "C16" => c16::eval(v),
                    "C17" => c17::eval(v),
                    _ => {
                        eprintln!("no eval for {prop}");
                        std::process::exit(2)
                    }
                }
            };
            util::eval_child_main(&f)
        }
        "c08-child" => c08::child_main(),
        "c15-alone" => c15::alone_child_main(),
        "run" => {
            if args.len() < 4 {
                usage();
            }
            let tier = args[3].as_str();
            if tier != "quick" && tier != "thorough" {
                usage();
            }
            println!("VERIF_SEED={}", util::verif_seed());
            match args[2].as_str() {
                "C04" => c04::run(tier),
                "C08" => c08::run(tier),
                "C15" => c15::run(tier),
                "C16" => c16::run(tier),
                "C17" => c17::run(tier),
                _ => usage(),
            }
        }
        "replay" => {
            if args.len() < 3 {
                usage();
            }
            let v = match util::read_json(Path::new(&args[2])) {
                Ok(v) => v,
                Err(e) => {
                    eprintln!("HARNESS ERROR: {e}");
                    return 2;
                }
            };
            let prop = v["property"].as_str().unwrap_or("").to_string();
            let want = v["key"].as_str().unwrap_or("").to_string();
            let got = match prop.as_str() {
                "C04" => c04::replay(&v),
                "C08" => c08::replay(&v),
                "C15" => c15::replay(&v),
                "C16" => c16::replay(&v),
                "C17" => c17::replay(&v),
                _ => {
                    eprintln!("HARNESS ERROR: unknown property in replay file");
                    return 2;
                }
            };
            match got {
                Some((k, d)) if k == want => {
                    println!("VIOLATION property={} replay={}", prop, args[2]);
                    println!("  reproduced key={k}");
                    println!("  {d}");
                    1
                }
                Some((k, d)) => {
                    println!("DIFFERENT violation on replay: key={k} (file has {want})");
                    println!("  {d}");
                    1
                }
                None => {
                    println!("NOT REPRODUCED: {} holds on this replay (key {want})", prop);
                    0
                }
            }
        }
        _ => usage(),
    }
}
