// Copies the multi-thread example's splitter (real code) next to the harness so
// it can be `include!`d; rebuilt whenever the repository's file changes.
use std::{env, fs, path::PathBuf};

fn main() {
    let repo = env::var("ESPADA_REPO").unwrap_or_else(|_| "/repo".to_string());
    let src = PathBuf::from(&repo).join("examples/multi-thread/scope.rs");
    let out = PathBuf::from(env::var("OUT_DIR").unwrap()).join("scope.rs");
    let text = fs::read_to_string(&src).expect("examples/multi-thread/scope.rs");
    fs::write(&out, text).unwrap();
    println!("cargo:rerun-if-changed={}", src.display());
    println!("cargo:rerun-if-env-changed=ESPADA_REPO");
    println!("cargo:rustc-env=ESPADA_REPO_DIR={}", repo);
    println!("cargo:rustc-check-cfg=cfg(espada_verif)");
}
