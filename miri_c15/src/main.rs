//! Miri tier of C15: small scoped evaluators drained on truly concurrent
//! threads that share Arc'd ranges; one live iterator is handed to another
//! thread mid-way. Under `-Zmiri-many-seeds` each seed is one exactly
//! repeatable preemptive schedule at basic-block granularity, and Miri's
//! data-race detector reports unsynchronised sharing.
//! No regex parser is involved (ranges are collected), to keep Miri fast.

use espada::card::{Card, Rank, Suit};
use espada::evaluator::{FlopExhaustiveEvaluator, Showdown};
use espada::hand_range::{CardPair, HandRange};
use std::sync::mpsc::channel;
use std::sync::Arc;

const RANKS: [Rank; 13] = [
    Rank::Ace, Rank::King, Rank::Queen, Rank::Jack, Rank::Ten, Rank::Nine, Rank::Eight,
    Rank::Seven, Rank::Six, Rank::Five, Rank::Four, Rank::Trey, Rank::Deuce,
];
const SUITS: [Suit; 4] = [Suit::Spade, Suit::Heart, Suit::Diamond, Suit::Club];

fn card(code: u8) -> Card {
    Card::new(RANKS[(code / 4) as usize], SUITS[(code % 4) as usize])
}
fn pair(a: u8, b: u8) -> CardPair {
    CardPair::new(card(a), card(b))
}
fn code(c: &Card) -> u64 {
    (*c.rank() as u64) * 4 + (*c.suit() as u64)
}

fn digest(s: &Showdown) -> u64 {
    let mut h: u64 = 0xcbf29ce484222325;
    let mut add = |x: u64| {
        h ^= x;
        h = h.wrapping_mul(0x100000001b3);
    };
    for c in s.board() {
        add(code(c));
    }
    for p in s.players() {
        let hc = p.hole_cards();
        add(code(&hc[0]));
        add(code(&hc[1]));
        add(p.hand().power_index() as u64);
        add(p.is_winner() as u64);
    }
    add(s.winner_len() as u64);
    add(s.probability().to_bits() as u64);
    h
}

#[derive(Clone)]
struct Spec {
    flop: [u8; 3],
    ranges: Arc<Vec<HandRange>>,
    scope: (u8, u8, u8, u8),
}

fn make(spec: &Spec) -> <FlopExhaustiveEvaluator as IntoIterator>::IntoIter {
    let board = [Some(card(spec.flop[0])), Some(card(spec.flop[1])), Some(card(spec.flop[2])), None, None];
    let mut ev = FlopExhaustiveEvaluator::new(&board, &spec.ranges);
    ev.scope(spec.scope.0, spec.scope.1, spec.scope.2, spec.scope.3);
    ev.into_iter()
}

fn alone(spec: &Spec) -> Vec<u64> {
    make(spec).map(|s| digest(&s)).collect()
}

fn main() {
    let r_a: HandRange = vec![(pair(0, 1), 1.0f32), (pair(0, 5), 0.5), (pair(2, 3), 1.0)].into_iter().collect();
    let r_b: HandRange = vec![(pair(1, 6), 1.0f32), (pair(8, 9), 0.25)].into_iter().collect();
    let r_c: HandRange = vec![(pair(0, 2), 1.0f32)].into_iter().collect();
    let shared = Arc::new(vec![r_a.clone(), r_b.clone()]);
    let specs = vec![
        Spec { flop: [40, 45, 50], ranges: shared.clone(), scope: (0, 1, 0, 5) },
        Spec { flop: [40, 45, 50], ranges: shared.clone(), scope: (0, 46, 1, 4) },
        Spec { flop: [12, 30, 51], ranges: Arc::new(vec![r_c.clone(), r_b.clone()]), scope: (0, 1, 0, 4) },
        Spec { flop: [40, 45, 50], ranges: shared.clone(), scope: (0, 1, 0, 5) }, // twin of #0
    ];
    let expect: Vec<Vec<u64>> = specs.iter().map(alone).collect();
    // the concurrent phase runs on freshly built, never used range objects (same
    // contents): first use of a shared range happens on several threads at once
    let shared = Arc::new(vec![r_a.clone(), r_b.clone()]);
    let specs: Vec<Spec> = specs
        .iter()
        .enumerate()
        .map(|(i, s)| if i == 2 { Spec { flop: s.flop, ranges: Arc::new(vec![r_c.clone(), r_b.clone()]), scope: s.scope } } else { Spec { flop: s.flop, ranges: shared.clone(), scope: s.scope } })
        .collect();

    // threads 0..3 drain their own evaluator concurrently; thread 3 drains half
    // of its iterator and hands the live iterator to a fourth thread.
    let (tx, rx) = channel::<(<FlopExhaustiveEvaluator as IntoIterator>::IntoIter, Vec<u64>)>();
    let mut hs = vec![];
    for (i, sp) in specs.iter().cloned().enumerate() {
        let tx = tx.clone();
        hs.push(std::thread::spawn(move || -> Option<Vec<u64>> {
            let mut it = make(&sp);
            if i == 3 {
                let mut got = vec![];
                for _ in 0..2 {
                    if let Some(s) = it.next() {
                        got.push(digest(&s));
                    }
                }
                tx.send((it, got)).unwrap();
                None
            } else {
                Some(it.map(|s| digest(&s)).collect())
            }
        }));
    }
    drop(tx);
    let finisher = std::thread::spawn(move || {
        let (it, mut got) = rx.recv().unwrap();
        for s in it {
            got.push(digest(&s));
        }
        got
    });
    // a reader thread shares a range by reference while evaluators run
    let shared2 = shared.clone();
    let reader = std::thread::spawn(move || shared2.iter().map(|r| r.card_pairs().len()).sum::<usize>());
    let mut ok = true;
    for (i, h) in hs.into_iter().enumerate() {
        if let Some(v) = h.join().unwrap() {
            if v != expect[i] {
                println!("MIRI-C15-DIVERGENCE evaluator {i}: {} showdowns concurrently vs {} alone", v.len(), expect[i].len());
                ok = false;
            }
        }
    }
    let v3 = finisher.join().unwrap();
    if v3 != expect[3] {
        println!("MIRI-C15-DIVERGENCE migrated evaluator 3: {} showdowns vs {} alone", v3.len(), expect[3].len());
        ok = false;
    }
    assert_eq!(reader.join().unwrap(), 5);
    // after the concurrent phase the alone runs still agree
    for (i, sp) in specs.iter().enumerate() {
        if alone(sp) != expect[i] {
            println!("MIRI-C15-DIVERGENCE evaluator {i}: alone-after differs from alone-before");
            ok = false;
        }
    }
    // showdowns shared by reference: two threads run every accessor of the same
    // showdowns at the same time; both must see what a single thread sees
    {
        let sp = &specs[0];
        let collected: Vec<Showdown> = make(sp).collect();
        let want: Vec<u64> = make(sp).map(|s| digest(&s)).collect();
        let shared = Arc::new(collected);
        let hs: Vec<_> = (0..2)
            .map(|_| {
                let sh = shared.clone();
                std::thread::spawn(move || sh.iter().map(digest).collect::<Vec<u64>>())
            })
            .collect();
        for (i, h) in hs.into_iter().enumerate() {
            if h.join().unwrap() != want {
                println!("MIRI-C15-DIVERGENCE reader {i} of a shared showdown vector saw other contents than a single thread");
                ok = false;
            }
        }
        if shared.iter().map(digest).collect::<Vec<u64>>() != want {
            println!("MIRI-C15-DIVERGENCE shared showdowns changed after being read by two threads");
            ok = false;
        }
    }
    if !ok {
        std::process::exit(1);
    }
    println!("miri-c15 ok");
}
