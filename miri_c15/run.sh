#!/usr/bin/env bash
# usage: run.sh <seed_lo> <seed_hi>   (Miri many-seeds range; each seed = one repeatable schedule)
set -u
HERE="$(cd "$(dirname "$0")" && pwd)"
LO="${1:-0}"; HI="${2:-16}"
export CARGO_NET_OFFLINE=true
export RUSTFLAGS="--cfg espada_verif --check-cfg cfg(espada_verif)"
export CARGO_TARGET_DIR="${CARGO_TARGET_DIR:-$HERE/../sim/target}/miri_c15"
EXTRA=()
if [ "${ESPADA_REPO:-/repo}" != "/repo" ]; then EXTRA=(--config "paths=[\"$ESPADA_REPO\"]"); fi
export MIRIFLAGS="-Zmiri-many-seeds=$LO..$HI -Zmiri-preemption-rate=${MIRI_PREEMPTION:-0.3} -Zmiri-disable-isolation"
exec cargo +nightly miri run --offline "${EXTRA[@]}" --manifest-path "$HERE/Cargo.toml"
