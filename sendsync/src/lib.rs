//! Compile-time probe for C15's last sentence: evaluators, ranges and showdowns
//! can be moved to and shared between threads. If one of these types loses
//! Send or Sync this crate stops compiling with E0277, which the C15 check
//! reports as the violation.
#![allow(dead_code)]

use espada::card::{Card, Rank, Suit};
use espada::evaluator::{FlopExhaustiveEvaluator, MadeHand, Showdown};
use espada::hand_range::{CardPair, HandRange, HandRangeToken, HandRangeTokenKind, RankPair};

fn assert_send_sync<T: Send + Sync>() {}
fn assert_send_sync_val<T: Send + Sync>(_: &T) {}

pub fn probe() {
    assert_send_sync::<FlopExhaustiveEvaluator>();
    assert_send_sync::<<FlopExhaustiveEvaluator as IntoIterator>::IntoIter>();
    assert_send_sync::<HandRange>();
    assert_send_sync::<Showdown>();
    assert_send_sync::<MadeHand>();
    assert_send_sync::<CardPair>();
    assert_send_sync::<RankPair>();
    assert_send_sync::<HandRangeToken>();
    assert_send_sync::<HandRangeTokenKind>();
    assert_send_sync::<Card>();
    assert_send_sync::<Rank>();
    assert_send_sync::<Suit>();
}

// ShowdownPlayer is not nameable from outside the crate; reach it by value.
fn probe_player(s: &Showdown) {
    assert_send_sync_val(&s.players()[0]);
    assert_send_sync_val(s.players());
}
