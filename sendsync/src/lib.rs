//! Compile-time probe for C15's last sentence: evaluators, ranges and showdowns
//! can be moved to and shared between threads. If one of these types loses
//! Send or Sync this crate stops compiling with E0277, which the C15 check
//! reports as the violation.
#![allow(dead_code)]

use espada::card::{Card, Rank, Suit};
use espada::evaluator::{FlopExhaustiveEvaluator, MadeHand, Showdown};
use espada::hand_range::{CardPair, HandRange, HandRangeToken, HandRangeTokenKind, RankPair};

fn assert_send_sync<T: Send + Sync>() {}
fn assert_send_sync_val<T: Send + Sync>(_: &T) {}

pub fn probe() {
    assert_send_sync::<FlopExhaustiveEvaluator>();
    assert_send_sync::<<FlopExhaustiveEvaluator as IntoIterator>::IntoIter>();
    assert_send_sync::<HandRange>();
    assert_send_sync::<Showdown>();
    assert_send_sync::<MadeHand>();
    assert_send_sync::<CardPair>();
    assert_send_sync::<RankPair>();
    assert_send_sync::<HandRangeToken>();
    assert_send_sync::<HandRangeTokenKind>();
    assert_send_sync::<Card>();
    assert_send_sync::<Rank>();
    assert_send_sync::<Suit>();
}

// ShowdownPlayer is not nameable from outside the crate; reach it by value.
fn probe_player(s: &Showdown) {
    assert_send_sync_val(&s.players()[0]);
    assert_send_sync_val(s.players());
}

// Not only the auto traits: values built on one thread from local inputs must be
// movable into a spawned thread (which demands 'static) and shareable behind an
// Arc. If an evaluator, iterator, range or showdown starts borrowing from its
// inputs this stops compiling (E0597 / E0521 / "borrowed value does not live
// long enough"), which the C15 check reports like a lost Send/Sync bound.
pub fn probe_moves() {
    use std::sync::Arc;
    let board = [None::<Card>; 5];
    let ranges: Vec<HandRange> = vec![HandRange::empty()];
    let evaluator = FlopExhaustiveEvaluator::new(&board, &ranges);
    let evaluator2 = FlopExhaustiveEvaluator::new(&board, &ranges);
    let range = ranges[0].clone();
    drop(ranges);
    let iterator = evaluator2.into_iter();
    let h1 = std::thread::spawn(move || evaluator.into_iter().count());
    let h2 = std::thread::spawn(move || {
        let mut it = iterator;
        let first: Option<Showdown> = it.next();
        let shared = Arc::new(first);
        let s2 = shared.clone();
        let h = std::thread::spawn(move || s2.as_ref().as_ref().map(|s| s.winner_len()));
        (h.join().ok(), shared.as_ref().as_ref().map(|s| s.probability()), it.count())
    });
    let shared_range = Arc::new(range);
    let r2 = shared_range.clone();
    let h3 = std::thread::spawn(move || r2.card_pairs().len());
    let _ = (h1.join(), h2.join(), h3.join(), shared_range.to_string());
}
