#!/usr/bin/env python3
"""Called by ./check C15 when the Send/Sync probe crate does not compile with
E0277: writes the replay file (the compiler diagnostic) and the evidence file,
prints the VIOLATION line, exits 1 (or 0 with KNOWN-FINDING if listed)."""
import json, os, re, sys, time
plog, tier = sys.argv[1], sys.argv[2]
verif = os.environ.get("VERIF_DIR", "/verif")
out = os.environ.get("VERIF_OUT", verif)
seed = int(os.environ.get("VERIF_SEED", "1") or 1)
text = open(plog).read()
lines = text.splitlines()
first = next((l.strip() for l in lines if "cannot be sent between threads safely" in l or "cannot be shared between threads safely" in l), "")
if not first:
    first = next((l.strip() for l in lines if l.startswith("error")), "")
    detail = next((l.strip() for l in lines if "does not live long enough" in l or "borrowed for" in l or "must outlive" in l or "moved out" in l), "")
    first = (first + " — " + detail).strip(" —")
key = "send_sync:" + re.sub(r"[^A-Za-z0-9` ]", "", first)[:80]
probed = ["FlopExhaustiveEvaluator", "FlopExhaustiveEvaluator::IntoIter", "HandRange", "Showdown", "ShowdownPlayer", "Vec<ShowdownPlayer>",
          "MadeHand", "CardPair", "RankPair", "HandRangeToken", "HandRangeTokenKind", "Card", "Rank", "Suit"]
known = []
try:
    known = json.load(open(os.path.join(verif, "known_findings.json"))).get("findings", [])
except Exception:
    pass
hit = next((f for f in known if f.get("property") == "C15" and f.get("key") == key), None)
os.makedirs(os.path.join(out, "replays"), exist_ok=True)
os.makedirs(os.path.join(out, "evidence"), exist_ok=True)
rpath = os.path.join(out, "replays", "C15-%d-send_sync.json" % seed)
json.dump({"property": "C15", "oracle": "send_sync", "key": key, "seed": str(seed),
           "detail": "a public value can no longer be moved to / shared with another thread: " + first,
           "replay": {"kind": "c15_sendsync", "diagnostic": lines[:80]}}, open(rpath, "w"), indent=1)
ev = {"property_id": "C15", "tier": tier, "seed": seed, "level": "exploration",
      "coverage": {"evaluations": len(probed), "distinct_nontrivial": len(probed),
                   "rule": "compile-time Send+Sync assertions, one per public type, plus code that moves an evaluator, a live iterator, a range and a showdown into spawned threads (the simulated runs were not reached: the simulator moves live iterators between threads and cannot be built when a type is not Send)",
                   "samples": [{"type": t, "bound": "Send + Sync"} for t in probed], "first_error": first,
                   "replay_files": [] if hit else [rpath]},
      "assumptions": ["only the Send/Sync sentence of C15 was evaluated on this run"],
      "wall_s": 0.0, "violations": 0 if hit else 1}
json.dump(ev, open(os.path.join(out, "evidence", "C15.json"), "w"), indent=1)
if hit:
    print("KNOWN-FINDING: property=C15 " + hit.get("what", ""))
    sys.exit(0)
print("VIOLATION property=C15 replay=" + rpath)
print("  oracle=send_sync key=" + key)
print("  " + first)
sys.exit(1)
