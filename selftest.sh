#!/usr/bin/env bash
# Self-tests of the simulator (not property checks):
#   selftest.sh determinism [props...]   every quick check twice + at another worker count, diff event logs
#   selftest.sh mutants [names...]       breaking patches must be caught by their check, preserving ones must be silent
#   selftest.sh seeded [ids...]          same, for the sub-agent changes kept under seeded/
# Scratch copies live under $SCRATCH_ROOT (default /tmp/espada-selftest) and are removed as soon as done.
set -u
HERE="$(cd "$(dirname "$0")" && pwd)"
SCRATCH_ROOT="${SCRATCH_ROOT:-/tmp/espada-selftest}"
mode="${1:-}"; shift || true

summ() { # evidence file -> comparable summary (everything measured except wall time / throughput)
  python3 - "$1" <<'EOF'
import json,sys
e=json.load(open(sys.argv[1])); c=e["coverage"]
keep={k:c.get(k) for k in ("evaluations","distinct_nontrivial","simulated_time_logical_steps","faults_fired","probes","event_log_digest")}
keep["violations"]=e.get("violations")
print(json.dumps(keep,sort_keys=True))
EOF
}

case "$mode" in
determinism)
  props=("$@"); [ ${#props[@]} -eq 0 ] && props=(C04 C08 C15 C16 C17)
  fail=0
  for p in "${props[@]}"; do
    for seed in 1 7; do
      ref=""
      for run in a:16 b:16 c:5; do
        w="${run#*:}"; out="$SCRATCH_ROOT/det-$p-$seed-${run%%:*}"
        rm -rf "$out"; mkdir -p "$out"
        VERIF_OUT="$out" VERIF_SEED=$seed VERIF_WORKERS=$w "$HERE/check" "$p" quick >"$out/log" 2>&1
        rc=$?
        if [ $rc -ne 0 ]; then echo "DETERMINISM: $p seed=$seed workers=$w exited $rc"; tail -5 "$out/log"; fail=1; fi
        s="$(summ "$out/evidence/$p.json")"
        if [ -z "$ref" ]; then ref="$s"; elif [ "$s" != "$ref" ]; then
          echo "DETERMINISM MISMATCH: $p seed=$seed workers=$w"; echo " ref: $ref"; echo " got: $s"; fail=1
        fi
        rm -rf "$out"
      done
      echo "determinism ok: $p seed=$seed (3 runs, workers 16/16/5) $(echo "$ref" | python3 -c 'import json,sys; d=json.load(sys.stdin); print("evaluations=%s log=%s"%(d["evaluations"],d["event_log_digest"]))')"
    done
  done
  exit $fail
  ;;
mutants|seeded)
  # each entry: <dir>/<name>/{patch.diff,meta.json}; meta.json: {"property": "C04", "expect": "caught"|"silent", ...}
  base="$HERE/mutants"; [ "$mode" = seeded ] && base="$HERE/seeded"
  names=("$@"); [ ${#names[@]} -eq 0 ] && names=($(ls "$base"))
  fail=0
  mkdir -p "$SCRATCH_ROOT"
  for n in "${names[@]}"; do
    d="$base/$n"; [ -f "$d/patch.diff" ] || continue
    prop="$(python3 -c "import json;print(json.load(open('$d/meta.json'))['property'])")"
    expect="$(python3 -c "import json;print(json.load(open('$d/meta.json')).get('expect','caught'))")"
    others="$(python3 -c "import json;print(' '.join(json.load(open('$d/meta.json')).get('also_run',[])))")"
    sc="$SCRATCH_ROOT/m-$n"; rm -rf "$sc"; mkdir -p "$sc/repo" "$sc/out"
    rsync -a --exclude target --exclude .git /repo/ "$sc/repo/"
    if ! (cd "$sc/repo" && patch -p1 -s --no-backup-if-mismatch < "$d/patch.diff"); then
      echo "MUTANT $n: patch does not apply"; fail=1; rm -rf "$sc"; continue
    fi
    # warm the scratch build from the main one (regex etc. are reused)
    if [ -d "$HERE/sim/target" ]; then mkdir -p "$sc/target"; cp -r "$HERE/sim/target/release" "$HERE/sim/target/debug" "$sc/target/" 2>/dev/null; fi
    if [ "$expect" = missed_known ]; then
      echo "skip $n [$prop] recorded as NOT caught by the quick tier (see its meta.json: why_missed)"; rm -rf "$sc"; continue
    fi
    checks="$prop"; [ "$expect" = silent ] && checks="C04 C08 C15 C16 C17"; [ -n "$others" ] && checks="$checks $others"
    for p in $checks; do
      t0=$(date +%s)
      ESPADA_REPO="$sc/repo" ESPADA_SIM_TARGET="$sc/target" VERIF_OUT="$sc/out" "$HERE/check" "$p" "${TIER:-quick}" >"$sc/out/$p.log" 2>&1
      rc=$?
      t1=$(date +%s)
      want=1; [ "$expect" = silent ] && want=0
      # a check other than the target one is only required not to crash the harness
      if [ "$p" != "$prop" ] && [ "$expect" != silent ]; then
        echo "  mutant $n: non-target check $p exit=$rc ($((t1-t0))s)"
        continue
      fi
      if [ $rc -eq $want ]; then
        line="$(grep -m1 -A2 '^VIOLATION' "$sc/out/$p.log" | tr '\n' ' ' | cut -c1-300)"
        rep=""
        if [ $want -eq 1 ]; then
          # every reported replay file must reproduce its violation in a fresh process
          nrep=0; nok=0
          for rf in $(grep '^VIOLATION' "$sc/out/$p.log" | sed 's/.*replay=//'); do
            # violations found under an OS-decided thread schedule (native_* oracles, and the real
            # example binary's own threads in machine_*) are
            # reported as possibly non-replayable: best effort, not required
            case "$rf" in *native_*|*machine_*) continue;; esac
            nrep=$((nrep+1))
            ESPADA_REPO="$sc/repo" ESPADA_SIM_TARGET="$sc/target" VERIF_OUT="$sc/out" "$HERE/check" replay "$rf" >"$sc/out/replay.log" 2>&1
            if [ $? -eq 1 ] && grep -q "reproduced key=\|VIOLATION property=C15 replay=.*send_sync" "$sc/out/replay.log"; then nok=$((nok+1)); else echo "  REPLAY DID NOT REPRODUCE: $rf"; head -3 "$sc/out/replay.log"; fi
          done
          rep="replays $nok/$nrep reproduced"
          [ $nok -ne $nrep ] && fail=1
        fi
        echo "ok   $n [$prop expect=$expect] check $p exit=$rc ($((t1-t0))s) $rep $line"
      else
        echo "FAIL $n [$prop expect=$expect] check $p exit=$rc (wanted $want)"; tail -6 "$sc/out/$p.log"; fail=1
      fi
    done
    rm -rf "$sc"
  done
  exit $fail
  ;;
*)
  sed -n 2,6p "$0"; exit 2;;
esac
