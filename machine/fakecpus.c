// LD_PRELOAD shim — the *machine seam* of the C16 check.
// The multi-thread example sizes its worker pool from num_cpus::get(), which on
// Linux counts the bits sched_getaffinity() returns. Under this shim the
// unmodified example binary believes it runs on a machine with FAKE_NCPUS
// logical CPUs (1..=1024), so the real main.rs — argument parsing, thread
// spawning, the swallowed join errors, merging, printing — is exercised for
// worker counts this sandbox's 16 cores could never produce.
#define _GNU_SOURCE
#include <sched.h>
#include <stdlib.h>
#include <string.h>
#include <unistd.h>

int sched_getaffinity(pid_t pid, size_t cpusetsize, cpu_set_t *mask) {
    (void)pid;
    const char *e = getenv("FAKE_NCPUS");
    long n = e ? atol(e) : 1;
    if (n < 1) n = 1;
    if ((size_t)n > cpusetsize * 8) n = (long)(cpusetsize * 8);
    memset(mask, 0, cpusetsize);
    for (long i = 0; i < n; i++) CPU_SET_S(i, cpusetsize, mask);
    return 0;
}
